"""Access to the fparser under test: always the *current working tree* of
/repo (or VF_REPO_SRC for the mutant self-test)."""
import os
import sys
import logging

REPO_SRC = os.environ.get("VF_REPO_SRC", "/repo/src")
if REPO_SRC not in sys.path:
    sys.path.insert(0, REPO_SRC)
# a stale installed copy must never win
for _k in [k for k in sys.modules if k == "fparser" or k.startswith("fparser.")]:
    if not getattr(sys.modules[_k], "__file__", "").startswith(REPO_SRC):
        del sys.modules[_k]

logging.disable(logging.CRITICAL)

import fparser  # noqa: E402
from fparser.two.parser import ParserFactory  # noqa: E402
from fparser.common.readfortran import (  # noqa: E402
    FortranStringReader,
    FortranFileReader,
    FortranReaderBase,
)
from fparser.common import readfortran, splitline, sourceinfo  # noqa: E402
from fparser.two import utils as two_utils  # noqa: E402
from fparser.two import Fortran2003 as F03  # noqa: E402
from fparser.two import symbol_table  # noqa: E402
from fparser.two.utils import (  # noqa: E402
    FortranSyntaxError,
    NoMatchError,
    Base,
    BlockBase,
    walk,
)

assert os.path.realpath(fparser.__file__).startswith(os.path.realpath(REPO_SRC)), (
    "fparser imported from %s, not from %s" % (fparser.__file__, REPO_SRC)
)

SYMBOL_TABLES = symbol_table.SYMBOL_TABLES


def create(std="f2003"):
    """The parser for std.  The step budget of M-NEW is a bound per input: the counter restarts with every parse, so
    that a case that parses many variants (layouts, shrinking) is not cut off by their sum."""
    cls = ParserFactory().create(std=std)

    def run(reader):
        from . import monitors

        nm = monitors.NewMonitor.installed
        if nm is not None:
            nm.reset()
        return cls(reader)

    run.parser_class = cls
    return run


def parse(text, std="f2003", **reader_opts):
    """create(std) then parse text with a string reader; returns the tree."""
    parser = create(std)
    reader = FortranStringReader(text, **reader_opts)
    return parser(reader)


def fparser_frames(tb):
    """List of (funcname-qualified, filename-tail, lineno) for frames under fparser/."""
    out = []
    while tb is not None:
        co = tb.tb_frame.f_code
        fn = co.co_filename
        if "/fparser/" in fn:
            qual = getattr(co, "co_qualname", co.co_name)
            out.append((qual, fn.split("/fparser/")[-1], tb.tb_lineno))
        tb = tb.tb_next
    return out
