"""Comment decoration used by C01/C10/C18 (configuration 'comments kept')."""
from . import layout


def insert_comments(P, rng, **opts):
    o = dict(p_cont=0.0, p_semi=0.0, p_case=0.0)
    o.update(opts)
    text, info = layout.render(P, rng, o)
    info["stmt_line"] = info["stmt_last"]
    return text, info
