"""Shared helpers for the property modules: monitored parsing, the token
oracle, payload helpers."""
import hashlib

from . import fp, monitors
from .lexer import lex, squash, LexError
from .canon import shape, ShapeOpts, norm_text, first_diff, wellformed, count_nodes
from .gen.model import Program

_STREAM = None
_REPMAP = None


def stream_monitor():
    global _STREAM
    if _STREAM is None:
        _STREAM = monitors.StreamMonitor()
        _STREAM.__enter__()
    return _STREAM


def repmap_monitor():
    global _REPMAP
    if _REPMAP is None:
        _REPMAP = monitors.RepmapMonitor()
        _REPMAP.__enter__()
    return _REPMAP


class ParseResult:
    __slots__ = ("tree", "error", "conservation", "anomalies", "n_next", "n_put", "reader", "consumed")


def free_reader(text, **opts):
    """String reader with the source form stated explicitly (free), as the
    fparser2 script does with its --fixed/--free options: the automatic
    detection is C05's subject and must not interfere elsewhere."""
    from fparser.common.sourceinfo import FortranFormat

    reader = fp.FortranStringReader(text, **opts)
    reader.set_format(FortranFormat(True, False))
    return reader


def parse_monitored(text, std, reader=None, conserve=True, **opts):
    """create(std); parse text; returns ParseResult.  Exceptions other than
    FortranSyntaxError propagate (they are C06's business but callers may
    want to see them)."""
    sm = stream_monitor()
    parser = fp.create(std)
    if reader is None:
        reader = free_reader(text, **opts)
    sm.watch(reader)
    n0, p0 = sm.n_next, sm.n_put
    res = ParseResult()
    res.reader = reader
    res.tree = None
    res.error = None
    res.conservation = []
    try:
        res.tree = parser(reader)
    except fp.FortranSyntaxError as e:
        res.error = e
    finally:
        sm.reader = None
    res.anomalies = list(sm.anomalies)
    res.n_next = sm.n_next - n0
    res.n_put = sm.n_put - p0
    res.consumed = len(sm.consumed())
    if res.tree is not None and conserve:
        res.conservation = sm.conservation(res.tree)
    return res


def digest(*parts):
    h = hashlib.sha1()
    for p in parts:
        h.update(repr(p).encode())
        h.update(b"\0")
    return h.hexdigest()[:16]


# ------------------------------------------------------------------ token oracle
def expected_stream(text, names):
    """(chars, exact flags, token index per char, tokens) of an expected
    statement: N/S tokens and words listed in names are character-exact, the
    rest is compared case-insensitively."""
    chars, exact, tix = [], [], []
    toks = lex(text, comments=False)
    for k, (tok, cls) in enumerate(toks):
        ex = cls in ("S", "N") or (cls == "W" and tok in names) or (cls == "K" and tok[:-1] in names)
        for ch in tok:
            chars.append(ch)
            exact.append(ex)
            tix.append(k)
    return chars, exact, tix, toks


def cmp_stmt(expected, names, got):
    """Compare one expected statement with one regenerated line.
    Returns (ok, deviations, detail)."""
    try:
        echars, exact, tix, toks = expected_stream(expected, names)
        g, _ = squash(got)
    except LexError as e:
        return False, [], "lexer: %s" % e
    devs = []
    if len(echars) != len(g):
        # locate first divergence for the report
        i = 0
        while i < min(len(echars), len(g)) and _same(echars[i], g[i], exact[i]):
            i += 1
        return False, devs, "length %d vs %d, first divergence at %d: expected ...%r got ...%r" % (
            len(echars), len(g), i, "".join(echars[max(0, i - 12): i + 12]), g[max(0, i - 12): i + 12])
    for i, ch in enumerate(echars):
        if _same(ch, g[i], exact[i]):
            continue
        tok, cls = toks[tix[i]]
        if cls == "N" and ch.lower() == g[i].lower():
            if "numeric-literal-case" not in devs:
                devs.append("numeric-literal-case")
            continue
        if cls == "S" and ch.lower() == g[i].lower() and tix[i] > 0 and toks[tix[i] - 1][1] == "W" \
                and toks[tix[i] - 1][0].lower() in ("b", "o", "z"):
            if "numeric-literal-case" not in devs:
                devs.append("numeric-literal-case")
            continue
        return False, devs, "char %d: expected %r (in token %r, %s) got %r; context expected ...%r got ...%r" % (
            i, ch, tok, "exact" if exact[i] else "folded", g[i], "".join(echars[max(0, i - 12): i + 12]),
            g[max(0, i - 12): i + 12])
    return True, devs, None


def _same(e, g, exact):
    return e == g if exact else e.lower() == g.lower()


def compare_program_tokens(stmts, out_text, skip_comment_lines=True):
    """Token oracle over a whole program.  stmts: list of model.Stmt (expected
    statements in order).  Returns (violations, deviations_used, n_compared)."""
    lines = []
    for ln in out_text.split("\n"):
        s = ln.strip()
        if not s:
            continue
        if skip_comment_lines and s.startswith("!"):
            continue
        lines.append(s)
    viols = []
    devs_used = []
    n = min(len(stmts), len(lines))
    for i in range(n):
        st = stmts[i]
        names = st.exact_names()
        ok, devs, detail = cmp_stmt(st.strict(), names, lines[i])
        if not ok:
            len_text, ldevs = st.lenient()
            if ldevs:
                ok2, devs2, detail2 = cmp_stmt(len_text, names, lines[i])
                if ok2:
                    for d in ldevs + devs2:
                        if d not in devs_used:
                            devs_used.append(d)
                    continue
            viols.append({
                "key": "token-mismatch",
                "detail": "statement %d (%s): %s | source: %r | regenerated: %r" % (i, st.kind, detail, st.src(), lines[i]),
                "stmt": i,
            })
            break
        for d in devs:
            if d not in devs_used:
                devs_used.append(d)
    if not viols and len(stmts) != len(lines):
        i = n
        viols.append({
            "key": "statement-count",
            "detail": "%d statements in the source, %d in the regenerated text; first unmatched: %r" % (
                len(stmts), len(lines), (stmts[i].src() if i < len(stmts) else lines[i])),
            "stmt": i,
        })
    return viols, devs_used, n


def program_payload(P, **more):
    d = {"program": P.to_json()}
    d.update(more)
    return d


def payload_program(payload):
    return Program.from_json(payload["program"])
