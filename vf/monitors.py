"""Runtime monitors attached from the harness (no source change in /repo).

Every monitor counts its activations; a deciding monitor with zero
activations makes the owning check inconclusive.
"""
import re
import sys
import signal
import collections

from . import fp
from .fp import readfortran, two_utils, symbol_table


class StepBudgetExceeded(BaseException):
    """Raised by M-NEW when the constructor-call budget is exhausted."""


class CaseTimeout(BaseException):
    """Raised by the per-case wall watchdog (verdict: inconclusive)."""


# ---------------------------------------------------------------- wall watchdog
class Watchdog:
    def __init__(self, seconds):
        self.seconds = seconds

    def _fire(self, signum, frame):
        raise CaseTimeout("wall watchdog %ss" % self.seconds)

    def __enter__(self):
        self._old = signal.signal(signal.SIGALRM, self._fire)
        signal.setitimer(signal.ITIMER_REAL, self.seconds)
        return self

    def __exit__(self, *exc):
        signal.setitimer(signal.ITIMER_REAL, 0)
        signal.signal(signal.SIGALRM, self._old)
        return False


# ------------------------------------------------------------------------ M-NEW
class NewMonitor:
    """Counts Base.__new__ invocations (rule-constructor calls), per class if
    asked, and enforces a step budget."""

    installed = None

    def __init__(self, budget=3_000_000, per_class=False):
        self.budget = budget
        self.count = 0
        self.total = 0
        self.per_class = collections.Counter() if per_class else None

    def reset(self):
        self.count = 0

    def __enter__(self):
        assert NewMonitor.installed is None
        NewMonitor.installed = self
        self._orig = two_utils.Base.__dict__["__new__"]
        orig = self._orig
        if isinstance(orig, staticmethod):
            orig = orig.__func__
        mon = self

        def counting_new(cls, *a, **k):
            mon.count += 1
            mon.total += 1
            if mon.per_class is not None:
                mon.per_class[cls.__name__] += 1
            if mon.count > mon.budget:
                raise StepBudgetExceeded(mon.count)
            return orig(cls, *a, **k)

        two_utils.Base.__new__ = counting_new
        return self

    def __exit__(self, *exc):
        two_utils.Base.__new__ = self._orig
        NewMonitor.installed = None
        return False


# ---------------------------------------------------------------------- M-CALLS
class CallsMonitor:
    """sys.monitoring PY_START counter restricted to code under fparser/."""

    TOOL = 3

    def __init__(self):
        self.count = 0
        self._seen = {}

    def __enter__(self):
        mon = sys.monitoring
        mon.use_tool_id(self.TOOL, "vf-calls")
        me = self

        def on_start(code, offset):
            ok = me._seen.get(code)
            if ok is None:
                ok = "/fparser/" in code.co_filename
                me._seen[code] = ok
            if ok:
                me.count += 1
                return None
            return mon.DISABLE

        mon.register_callback(self.TOOL, mon.events.PY_START, on_start)
        mon.set_events(self.TOOL, mon.events.PY_START)
        return self

    def __exit__(self, *exc):
        mon = sys.monitoring
        mon.set_events(self.TOOL, 0)
        mon.register_callback(self.TOOL, mon.events.PY_START, None)
        mon.free_tool_id(self.TOOL)
        return False


# --------------------------------------------------------------------- M-STREAM
class StreamMonitor:
    """Watches the outermost FortranReaderBase.next / put_item of ONE reader.

    online : delivered sequence S is append-only; a re-read at position p must
             return the same object S[p]; a put-back must be of S[ptr-1].
    offline: item conservation against a tree (see conservation()).
    """

    def __init__(self):
        self.S = []
        self.ptr = 0
        self.depth = 0
        self.n_next = 0
        self.n_put = 0
        self.anomalies = []
        self.reader = None

    def watch(self, reader):
        self.reader = reader
        self.S = []
        self.ptr = 0
        self.anomalies = []

    def __enter__(self):
        cls = readfortran.FortranReaderBase
        self._onext, self._oput = cls.next, cls.put_item
        mon = self
        onext, oput = self._onext, self._oput

        def next_(self, *a, **k):
            if self is not mon.reader or mon.depth:
                return onext(self, *a, **k)
            mon.depth += 1
            try:
                item = onext(self, *a, **k)
            finally:
                mon.depth -= 1
            mon.n_next += 1
            if mon.ptr < len(mon.S):
                if mon.S[mon.ptr] is not item:
                    mon.anomalies.append(
                        ("reread-different", mon.ptr, _isig(mon.S[mon.ptr]), _isig(item))
                    )
                    # resynchronise: treat as new tail
                    del mon.S[mon.ptr:]
                    mon.S.append(item)
            else:
                mon.S.append(item)
            mon.ptr += 1
            return item

        def put_item(self, item):
            if self is not mon.reader or mon.depth:
                return oput(self, item)
            mon.n_put += 1
            if mon.ptr == 0:
                mon.anomalies.append(("put-on-empty", 0, None, _isig(item)))
            elif mon.S[mon.ptr - 1] is not item:
                mon.anomalies.append(
                    ("non-lifo-put", mon.ptr, _isig(mon.S[mon.ptr - 1]), _isig(item))
                )
                # tolerate: try to find the item further back
                for q in range(mon.ptr - 1, -1, -1):
                    if mon.S[q] is item:
                        mon.ptr = q + 1
                        break
            mon.ptr = max(0, mon.ptr - 1)
            mon.depth += 1
            try:
                return oput(self, item)
            finally:
                mon.depth -= 1

        cls.next = next_
        cls.put_item = put_item
        return self

    def __exit__(self, *exc):
        cls = readfortran.FortranReaderBase
        cls.next, cls.put_item = self._onext, self._oput
        return False

    def consumed(self):
        return self.S[: self.ptr]

    def conservation(self, tree):
        """Items that stayed consumed == multiset of node.item over the tree.
        Returns list of problems (strings)."""
        from .canon import iter_nodes

        problems = []
        want = collections.Counter(id(i) for i in self.consumed())
        byid = {id(i): i for i in self.consumed()}
        have = collections.Counter()
        for node in iter_nodes(tree):
            it = getattr(node, "item", None)
            if it is not None:
                have[id(it)] += 1
                byid.setdefault(id(it), it)
        missing = [k for k in want if have[k] == 0]
        twice = [k for k in have if have[k] > 1 and k in want]
        foreign = [k for k in have if k not in want]
        if missing:
            problems.append(
                "%d consumed reader item(s) attached to no tree node, first: %s"
                % (len(missing), _isig(byid[missing[0]]))
            )
        if twice:
            problems.append(
                "%d reader item(s) attached to more than one node, first: %s"
                % (len(twice), _isig(byid[twice[0]]))
            )
        if foreign:
            problems.append(
                "%d tree node item(s) never delivered by the reader, first: %s"
                % (len(foreign), _isig(byid[foreign[0]]))
            )
        return problems


def _isig(item):
    if item is None:
        return None
    txt = getattr(item, "line", None)
    if txt is None:
        txt = getattr(item, "comment", None)
    if txt is None and hasattr(item, "block"):
        txt = item.block
    return "%s%r@%s" % (type(item).__name__, (txt or "")[:60], getattr(item, "span", None))


# ---------------------------------------------------------------------- M-SCOPE
class ScopeMonitor:
    """Event log of SymbolTables operations plus a shadow stack."""

    def __init__(self):
        self.events = 0
        self.shadow = []
        self.anomalies = []
        self.dups = []

    def __enter__(self):
        cls = symbol_table.SymbolTables
        self._orig = {n: getattr(cls, n) for n in ("enter_scope", "exit_scope", "clear", "remove")}
        mon = self
        o = self._orig

        def enter_scope(self, name, node=None):
            mon.events += 1
            cur = self.current_scope
            r = o["enter_scope"](self, name, node=node)
            if cur is not None:
                # judged on the state after the call: re-entering an existing child is not a duplicate
                if sum(1 for c in cur.children if c.name == name.lower()) > 1:
                    mon.dups.append((cur.name, name.lower()))
            mon.shadow.append(name.lower())
            return r

        def exit_scope(self):
            mon.events += 1
            if not mon.shadow:
                mon.anomalies.append("exit_scope on empty shadow stack")
            else:
                mon.shadow.pop()
            return o["exit_scope"](self)

        def clear(self):
            mon.events += 1
            mon.shadow = []
            return o["clear"](self)

        def remove(self, name):
            mon.events += 1
            return o["remove"](self, name)

        cls.enter_scope, cls.exit_scope, cls.clear, cls.remove = (
            enter_scope,
            exit_scope,
            clear,
            remove,
        )
        return self

    def __exit__(self, *exc):
        cls = symbol_table.SymbolTables
        for n, f in self._orig.items():
            setattr(cls, n, f)
        return False


def scope_depth():
    d = 0
    cur = fp.SYMBOL_TABLES.current_scope
    while cur is not None:
        d += 1
        cur = cur.parent
    return d


def top_table_names():
    """Names of the top-level symbol tables, through the public str()."""
    lines = str(fp.SYMBOL_TABLES).split("\n")
    return sorted(l for l in lines[2:] if l)


def table_forest():
    """Nested (name, symbols, uses, [children]) for every top-level table."""

    def one(t):
        syms = sorted(getattr(t, "_data_symbols", {}).keys())
        uses = sorted(getattr(t, "_modules", {}).keys())
        return (t.name, tuple(syms), tuple(uses), tuple(one(c) for c in t.children))

    return tuple(one(fp.SYMBOL_TABLES.lookup(n)) for n in top_table_names())


# --------------------------------------------------------------------- M-REPMAP
_BLANKS_NEAR_BRACKET = re.compile(r"\s+")


def _squeeze(s):
    return re.sub(r"\s+", "", s)


class RepmapMonitor:
    """Checks on every *distinct* call of string_replace_map that applying the
    returned map to the returned line gives back the input up to blanks (and
    case outside literals when lower=True)."""

    def __init__(self):
        self.checked = 0
        self.bad = []
        self._seen = set()

    def __enter__(self):
        from .lexer import mask_fold

        orig = fp.splitline.string_replace_map
        self._orig = orig
        mon = self

        def wrapper(line, lower=False):
            res = orig(line, lower=lower)
            key = (line, lower)
            if key not in mon._seen:
                mon._seen.add(key)
                mon.checked += 1
                try:
                    new, rmap = res
                    back = rmap(new)
                    a, b = _squeeze(back), _squeeze(line)
                    if lower:
                        ok = mask_fold(a) == mask_fold(b)
                    else:
                        ok = a == b
                    if not ok and len(mon.bad) < 20:
                        mon.bad.append((line, lower, back))
                except Exception as err:  # monitor must not change behaviour
                    if len(mon.bad) < 20:
                        mon.bad.append((line, lower, "monitor error %r" % (err,)))
            return res

        self._patched = []
        for name, mod in list(sys.modules.items()):
            if not name.startswith("fparser") or mod is None:
                continue
            for attr, val in list(vars(mod).items()):
                if val is orig:
                    setattr(mod, attr, wrapper)
                    self._patched.append((mod, attr))
        return self

    def __exit__(self, *exc):
        for mod, attr in self._patched:
            setattr(mod, attr, self._orig)
        return False
