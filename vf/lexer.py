"""Independent free-form Fortran tokenizer and normaliser.

Written from the standard's lexical rules; shares no code with fparser.
Token classes: W word (name or keyword), K kind prefix glued to the character
literal that follows (kind_'text'), N numeric literal, S character
literal (quotes included), O dotted operator / logical literal, P punctuation
or operator, C comment (from '!' to end of line).
"""
import re

_WORD = re.compile(r"[A-Za-z_$][A-Za-z0-9_$]*")
_NUM = re.compile(
    r"(?:\d+\.\d*|\.\d+|\d+)(?:[edqEDQ][+-]?\d+)?(?:_[A-Za-z0-9_]+)?"
)
_DOTTED = re.compile(r"\.[A-Za-z]+\.(?:_[A-Za-z0-9_]+)?")
_OPS2 = ("**", "//", "==", "/=", "<=", ">=", "=>", "::", "(/", "/)")


class LexError(Exception):
    pass


def read_string(text, i):
    """text[i] is a quote; returns index just after the closing quote."""
    q = text[i]
    j = i + 1
    n = len(text)
    while j < n:
        if text[j] == q:
            if j + 1 < n and text[j + 1] == q:
                j += 2
                continue
            return j + 1
        j += 1
    raise LexError("unterminated character literal: %r" % text[i : i + 40])


def lex(text, comments=True):
    """Tokenise one logical line (no continuation marks).  Returns a list of
    (text, cls)."""
    out = []
    i, n = 0, len(text)
    while i < n:
        c = text[i]
        if c in " \t":
            i += 1
            continue
        if c in "'\"":
            j = read_string(text, i)
            out.append((text[i:j], "S"))
            i = j
            continue
        if c == "!":
            if comments:
                out.append((text[i:], "C"))
            break
        if c == ".":
            m = _DOTTED.match(text, i)
            # '.5' style number must not be mistaken; a dotted word wins only
            # if it is letters between dots
            if m:
                out.append((m.group(0), "O"))
                i = m.end()
                continue
        if c.isdigit() or (c == "." and i + 1 < n and text[i + 1].isdigit()):
            m = _NUM.match(text, i)
            tok = m.group(0)
            # "1.eq.2" / "1.and." : a digit string followed by a dotted operator
            m2 = re.match(r"\d+(?=\.[A-Za-z]+\.)", text[i:])
            if m2 and not re.match(r"\d+\.[eEdDqQ][+-]?\d", text[i:]):
                tok = m2.group(0)
            if tok.endswith("_") is False and i + len(tok) < n and text[i + len(tok)] == "_" and i + len(tok) + 1 < n \
                    and text[i + len(tok) + 1] in "'\"":
                k = read_string(text, i + len(tok) + 1)
                out.append((text[i:k], "S"))
                i = k
                continue
            out.append((tok, "N"))
            i += len(tok)
            continue
        m = _WORD.match(text, i)
        if m:
            w = m.group(0)
            j = m.end()
            if j < n and text[j] in "'\"":
                if len(w) == 1 and w.lower() in "boz":
                    # BOZ literal constant: one token
                    k = read_string(text, j)
                    out.append((text[i:k], "N"))
                    i = k
                    continue
                if w.endswith("_"):
                    # kind-prefixed character literal: prefix (class K, glued to the literal) + literal
                    k = read_string(text, j)
                    out.append((w, "K"))
                    out.append((text[j:k], "S"))
                    i = k
                    continue
            out.append((w, "W"))
            i = j
            if w.lower() in ("operator", "assignment"):
                # generic-spec: OPERATOR ( defined-operator ) - the operator is one token
                k = i
                while k < n and text[k] in " \t":
                    k += 1
                if k < n and text[k] == "(":
                    e = text.find(")", k)
                    if e != -1 and text[k + 1:e].strip():
                        out.append(("(", "P"))
                        out.append((text[k + 1:e].strip(), "O" if text[k + 1:e].strip().startswith(".") else "P"))
                        out.append((")", "P"))
                        i = e + 1
            continue
        two = text[i : i + 2]
        if two in _OPS2:
            out.append((two, "P"))
            i += 2
            continue
        out.append((c, "P"))
        i += 1
    return out


def lex_spans(text):
    """Like lex() without comments, but returns (tok, cls, start, end)."""
    out = []
    pos = 0
    for tok, cls in lex(text, comments=False):
        i = text.index(tok, pos)
        out.append((tok, cls, i, i + len(tok)))
        pos = i + len(tok)
    return out


def squash(text):
    """Remove blanks outside character literals and drop a trailing comment.
    Returns (string, mask) where mask[i] is True for characters inside a
    character literal (quotes included)."""
    chars = []
    mask = []
    for tok, cls in lex(text, comments=False):
        for ch in tok:
            chars.append(ch)
            mask.append(cls == "S")
    return "".join(chars), mask


def mask_fold(text):
    """Lower-case everything outside character literals (blanks kept)."""
    out = []
    i, n = 0, len(text)
    while i < n:
        c = text[i]
        if c in "'\"":
            try:
                j = read_string(text, i)
            except LexError:
                j = n
            out.append(text[i:j])
            i = j
        else:
            out.append(c.lower())
            i += 1
    return "".join(out)


def fold_squash(text):
    """Blank-free, case-folded outside literals: the normal form used to
    compare statement text where only literals are case-exact."""
    s, mask = squash(text)
    return "".join(ch if m else ch.lower() for ch, m in zip(s, mask))


def split_statements(text):
    """Split regenerated source (no continuations) into non-empty logical
    lines; returns list of (lineno, text)."""
    out = []
    for k, line in enumerate(text.split("\n"), 1):
        if line.strip():
            out.append((k, line))
    return out
