"""Worker process: executes the cases of one shard and writes JSON lines."""
import os
import sys
import json
import time
import random
import hashlib
import traceback
import collections

HERE = os.path.dirname(os.path.dirname(os.path.abspath(__file__)))


def case_rng(seed, pid, idx):
    h = hashlib.sha256(("%d/%s/%d" % (seed, pid, idx)).encode()).digest()
    return random.Random(int.from_bytes(h[:8], "big"))


_NEWMON = None


def newmon():
    return _NEWMON


def run_payload(mod, payload):
    """Run mod.check(payload) under the wall watchdog and step budget."""
    global _NEWMON
    from . import monitors

    if _NEWMON is None:
        _NEWMON = monitors.NewMonitor(budget=getattr(mod, "STEP_BUDGET", 3_000_000))
        _NEWMON.__enter__()
    _NEWMON.budget = getattr(mod, "STEP_BUDGET", 3_000_000)
    _NEWMON.reset()
    try:
        with monitors.Watchdog(getattr(mod, "CASE_WALL", 120)):
            res = mod.check(payload)
    except monitors.StepBudgetExceeded as e:
        res = {"inconclusive": "step budget exceeded (%s)" % e, "violations": []}
    except monitors.CaseTimeout as e:
        res = {"inconclusive": "case wall watchdog (%s)" % e, "violations": []}
    except BaseException as e:  # harness error: never a verdict
        if isinstance(e, KeyboardInterrupt):
            raise
        res = {"inconclusive": "harness error %s: %s | %s" % (type(e).__name__, e, traceback.format_exc()[-1500:]),
               "violations": []}
    finally:
        try:
            from . import fp

            fp.SYMBOL_TABLES.clear()
        except Exception:
            pass
    res.setdefault("violations", [])
    res["status"] = "inconclusive" if res.get("inconclusive") else ("violated" if res["violations"] else "held")
    return res


def pinned(pid):
    """Runs the pinned reproducers: open findings -> still failing?; fixed
    findings -> ordinary regression cases (a fixed entry suppresses nothing)."""
    from .runner import load_prop, load_findings

    mod = load_prop(pid)
    out = {"open": {}, "regressions": []}
    for f in load_findings()["findings"]:
        if f["property"] != pid:
            continue
        rep = f.get("reproducer")
        if f["status"] == "open":
            if rep is None:
                out["open"][f["key"]] = True
                continue
            res = run_payload(mod, rep)
            out["open"][f["key"]] = any(v["key"] == f["key"] for v in res["violations"])
        elif f["status"] == "fixed" and rep is not None:
            res = run_payload(mod, rep)
            for v in res["violations"]:
                out["regressions"].append({"key": v["key"], "detail": "regression of fixed finding %r: %s" % (f["key"], v.get("detail")),
                                           "payload": rep})
            if res.get("inconclusive"):
                out["regressions"].append({"key": "pinned-inconclusive", "detail": res["inconclusive"][:300], "payload": rep})
    print(json.dumps(out))


def main():
    if sys.argv[1] == "--pinned":
        return pinned(sys.argv[2])
    pid, tier, seed, shard, nshards, ncases, wall, outp = sys.argv[1:9]
    seed, shard, nshards, ncases, wall = int(seed), int(shard), int(nshards), int(ncases), float(wall)
    from .runner import load_prop

    mod = load_prop(pid)
    t0 = time.time()
    evaluations = 0
    digests = set()
    tallies = collections.defaultdict(collections.Counter)
    mons = collections.Counter()
    samples = []
    extra = {}
    out = open(outp, "w")
    if hasattr(mod, "worker_init"):
        mod.worker_init(tier, seed)
    idx_done = 0
    last_idx = -1
    for idx in range(shard, ncases, nshards):
        if time.time() - t0 > wall:
            break
        idx_done += 1
        last_idx = idx
        rng = case_rng(seed, pid, idx)
        try:
            payload = mod.make_payload(rng, idx, tier)
        except Exception as e:
            out.write(json.dumps({"t": "inc", "idx": idx, "detail": "generator error %r %s" % (e, traceback.format_exc()[-800:])}) + "\n")
            out.flush()
            evaluations += 1
            continue
        if payload is None:
            continue
        res = run_payload(mod, payload)
        evaluations += res.get("evaluations", 1)
        for k, items in (res.get("tally") or {}).items():
            tallies[k].update(items)
        mons.update(res.get("monitors") or {})
        if res.get("inconclusive"):
            out.write(json.dumps({"t": "inc", "idx": idx, "detail": res["inconclusive"][:2000]}, default=str) + "\n")
            out.flush()
            continue
        for d in res.get("digests") or ():
            digests.add(d)
        if res.get("nontrivial") and "digests" not in res:
            digests.add(hashlib.sha1(json.dumps(payload, sort_keys=True, default=str).encode()).hexdigest()[:16])
        if len(samples) < 2 and res.get("sample") is not None:
            samples.append(res["sample"])
        for v in res["violations"]:
            rec = {"t": "viol", "idx": idx, "key": v["key"], "detail": v.get("detail"), "payload": v.get("payload", payload)}
            if "shrunk" in v:
                rec["shrunk"] = v["shrunk"]
            out.write(json.dumps(rec, default=str) + "\n")
            out.flush()
    if hasattr(mod, "worker_finish"):
        extra = mod.worker_finish() or {}
    out.write(json.dumps({
        "t": "sum", "evaluations": evaluations, "digests": sorted(digests),
        "tallies": {k: dict(c) for k, c in tallies.items()}, "monitors": dict(mons),
        "samples": samples, "extra": extra, "idx_done": idx_done, "last_idx": last_idx,
    }, default=str) + "\n")
    out.close()


if __name__ == "__main__":
    main()
