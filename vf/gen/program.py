"""Grammar-directed generator of valid Fortran 2003/2008 programs with ground
truth (see model.py).  Validity is by construction: nesting, construct names,
label uniqueness, statement ordering."""
import random

from .model import Stmt, Program
from .expr import ExprGen, text_of, has_defbin_with_dotted_right
from . import intrinsics

KEYWORDS = set("""
abstract allocatable allocate assign assignment associate asynchronous backspace bind block
blockdata call case character class close codimension common complex contains contiguous
continue critical cycle data deallocate default deferred dimension do double doubleprecision
else elseif elsewhere end enddo endif endfile entry enum enumerator equivalence error exit
extends external final flush forall format function generic go goto if implicit import in
include inout inquire integer intent interface intrinsic kind len logical module namelist
non_overridable none nopass nullify only open operator optional out parameter pass pause
pointer precision print private procedure program protected public pure read real recursive
result return rewind save select sequence stop submodule subroutine target then to type use
value volatile wait where while write concurrent elemental is unit fmt file status iostat err
stat errmsg source mold newunit nml rec advance size eor id exist opened number name access
form recl position action blank delim pad iolength c formatted unformatted non_intrinsic
""".split())

# names spelled like the word of a dotted operator: fparser mistakes '. ge .' inside '.neg. ge .lt. x' for the
# operator .GE. (C03 explores that separately and reports it)
OPERATOR_WORDS = {"eq", "ne", "lt", "le", "gt", "ge", "and", "or", "not", "eqv", "neqv", "true", "false"}

_INTR_USE = [
    ("sin", 1, 1), ("cos", 1, 1), ("sqrt", 1, 1), ("abs", 1, 1), ("exp", 1, 1), ("max", 2, 4),
    ("min", 2, 3), ("mod", 2, 2), ("int", 1, 2), ("real", 1, 2), ("size", 1, 2), ("merge", 3, 3),
    ("trim", 1, 1), ("len", 1, 1), ("sum", 1, 2), ("present", 1, 1), ("allocated", 1, 1),
    ("dot_product", 2, 2), ("nint", 1, 1), ("atan2", 2, 2), ("iand", 2, 2), ("huge", 1, 1),
    ("associated", 1, 2), ("transfer", 2, 2), ("maxval", 1, 2), ("dble", 1, 1), ("alog", 1, 1),
    ("dsqrt", 1, 1), ("float", 1, 1), ("ubound", 1, 2),
]

_SYL = ["a", "b", "c", "d", "e", "f", "g", "h", "i", "j", "k", "l", "m", "n", "p", "q", "r", "s",
        "t", "u", "v", "w", "x", "y", "z", "al", "be", "ga", "de", "ze", "th", "io", "ka", "la",
        "mu", "nu", "xi", "pi", "ro", "si", "ta", "up", "ph", "ch", "ps", "om", "tmp", "val",
        "idx", "cnt", "buf", "vec", "mat", "res", "arg", "num", "pos", "ptr", "obj", "row", "col"]

# names that begin with a keyword: legal, and hostile to keyword matching by prefix
_HOSTILE_NAMES = ["doit", "ifx", "endx", "elsewhere1", "format1", "integerx", "realv", "callme",
                  "printer", "gotcha", "whereabouts", "typed", "use_it", "dataset", "stopper",
                  "enddo_1", "endif2", "selector", "casefold", "thenx", "contain", "result1",
                  "function_x", "doublet", "programmer", "moduleX", "blockx", "savex", "readx",
                  "writeme", "openx", "closex", "returns", "cycler", "exiting", "allocat",
                  "omp_tid", "ompval", "omp", "acc_n"]


def _mkname(r, taken, hostile_ok=True):
    for _ in range(200):
        if hostile_ok and r.random() < 0.08:
            n = r.choice(_HOSTILE_NAMES)
        else:
            n = "".join(r.choice(_SYL) for _ in range(r.choice([1, 2, 2, 3])))
            if r.random() < 0.35:
                n += r.choice(["_", ""]) + str(r.randint(0, 99))
            if r.random() < 0.2:
                n = n + "_" + r.choice(_SYL)
            # case style
            c = r.random()
            if c < 0.5:
                pass
            elif c < 0.65:
                n = n.upper()
            elif c < 0.85:
                n = n.capitalize()
            else:
                n = "".join(ch.upper() if r.random() < 0.5 else ch for ch in n)
        low = n.lower()
        if low in KEYWORDS or low in intrinsics.ALL_NAMES or low in taken or low in OPERATOR_WORDS:
            continue
        if len(n) > 20:
            continue
        # stay clear of exponent-letter look-alikes and one-letter e/d/q
        import re
        if re.fullmatch(r"[edq]\d*", low):
            continue
        taken.add(low)
        return n
    raise RuntimeError("name pool exhausted")


class Env:
    """Name pools for one program."""

    INTRINSICS = _INTR_USE

    def __init__(self, r):
        self.r = r
        self.taken = set()
        mk = lambda n: [_mkname(r, self.taken) for _ in range(n)]  # noqa: E731
        self.scalars = mk(14)
        self.arrays = mk(7)
        self.functions = mk(5)
        self.structs = mk(4)
        self.comps = mk(6)
        self.kwargs = mk(3)
        self.loopvars = mk(4)
        self.kinds = mk(2)
        self.types = mk(4)
        self.procs = mk(6)
        self.modules = mk(4)
        self.consts = mk(4)
        self.used = set()

    def _pick(self, pool):
        n = self.r.choice(pool)
        self.used.add(n)
        return n

    def note(self, n):
        self.used.add(n)
        return n

    def fresh(self):
        n = _mkname(self.r, self.taken)
        self.used.add(n)
        return n

    def scalar(self):
        return self._pick(self.scalars)

    def array(self):
        return self._pick(self.arrays)

    def function(self):
        return self._pick(self.functions)

    def structvar(self):
        return self._pick(self.structs)

    def compname(self):
        return self._pick(self.comps)

    def keyword(self):
        return self._pick(self.kwargs)

    def loopvar(self):
        return self._pick(self.loopvars)

    def kindname(self):
        return self._pick(self.kinds)

    def typename(self):
        return self._pick(self.types)

    def procname(self):
        return self._pick(self.procs)

    def modname(self):
        return self._pick(self.modules)

    def const(self):
        return self._pick(self.consts)

    def take_used(self):
        u, self.used = self.used, set()
        return u


class Ctx:
    def __init__(self, ukind, internal=False, in_module=False, in_interface=False):
        self.ukind = ukind
        self.internal = internal
        self.in_module = in_module
        self.in_interface = in_interface
        self.labels = set()
        self.pending = []
        self.cid = None
        self.loops = []  # stack of (construct name or None)
        self.named = []  # stack of construct names (for EXIT from non-loop: f2008 only, unused)
        self.nonblock_depth = 0


class ProgramGen:
    def __init__(self, seed, std="f2003", size=1.0, hostile=True, feature_bias=None,
                 max_units=3, defined_ops=True, bare_main_multi=True):
        self.r = random.Random(seed)
        self.std = std
        self.size = size
        self.env = Env(self.r)
        self.eg = ExprGen(self.r, self.env, hostile=hostile, defined_ops=defined_ops)
        self.out = []
        self.depth = 0
        self.cid = 0
        self.unit_no = -1
        self.max_units = max_units
        self.f08 = std == "f2008"
        self.bare_main_multi = bare_main_multi
        self.n_units = 1

    # ------------------------------------------------------------------ emit
    def S(self, kind, text, **kw):
        names = kw.pop("names", None)
        used = self.env.take_used()
        if names:
            used |= set(names)
        if kw.get("cname"):
            used.add(kw["cname"])
        s = Stmt(kind, text, used, **kw)
        s.depth = self.depth
        s.unit = self.unit_no
        self.out.append(s)
        return s

    def new_cid(self):
        self.cid += 1
        return self.cid

    def p(self, x):
        return self.r.random() < x

    def label(self, ctx):
        while True:
            l = self.r.choice([self.r.randint(1, 99), self.r.randint(100, 999), self.r.randint(1000, 99999)])
            if l not in ctx.labels:
                ctx.labels.add(l)
                return str(l)

    def ref_label(self, ctx):
        """A label that will be defined in this unit (on a CONTINUE emitted at
        the end of its execution part)."""
        if ctx.pending and self.p(0.5):
            return self.r.choice(ctx.pending)
        l = self.label(ctx)
        ctx.pending.append(l)
        return l

    def expr(self, d=None):
        if d is None:
            d = self.r.choice([0, 1, 1, 2, 2, 3])
        return text_of(self._clean(lambda: self.eg.expr(d)))

    def lexpr(self, d=None):
        """Logical-valued expression: never a bare non-logical literal."""
        if d is None:
            d = self.r.choice([1, 1, 2])
        e = self._clean(lambda: self.eg.level5(d))
        while e[0] == "par":
            e = e[1]
        if e[0] == "leaf" and (e[1][:1] in "0123456789'\"([+-" or (e[1][:1] == "." and e[1][1:2].isdigit())
                               or "_'" in e[1] or '_"' in e[1]):
            e = ("bin", self.r.choice(["==", "/=", "<", ".ge."]), e, ("leaf", self.env.scalar()))
        if e[0] == "un" and e[1] in "+-":
            e = ("bin", ">", e, ("leaf", "0"))
        return text_of(e)

    def _clean(self, f):
        """Expressions of whole programs avoid the shape of the known C03
        finding (defined binary operator with a dotted token to its right),
        which C03 itself explores and reports."""
        from .expr import text_has_defbin_dotted_right
        from .model import to_src

        for _ in range(50):
            e = f()
            if not has_defbin_with_dotted_right(e) and not text_has_defbin_dotted_right(to_src(text_of(e))):
                return e
        return ("leaf", self.env.scalar())

    def nexpr(self, d=None):
        if d is None:
            d = self.r.choice([0, 1, 1, 2])
        return text_of(self._clean(lambda: self.eg.level2(d)))

    def iexpr(self, d=None):
        if d is None:
            d = self.r.choice([0, 0, 1, 1, 2])
        return self.eg.iexpr(d)

    def var(self):
        r = self.r
        c = r.random()
        if c < 0.55:
            return self.env.scalar()
        if c < 0.8:
            return self.eg.array_ref(1, sections=self.p(0.3))
        return self.eg.component(1)

    # ------------------------------------------------------------- top level
    def generate(self):
        r = self.r
        n = r.choice([1, 1, 2, 2, 3][: 2 + self.max_units])
        n = min(n, self.max_units)
        kinds = []
        for _ in range(n):
            kinds.append(r.choice(["program", "subroutine", "function", "module", "module",
                                   "subroutine", "blockdata"] + (["submodule"] if self.f08 else [])))
        self.n_units = n
        # at most one main program
        seen_main = False
        for k in kinds:
            if k == "program":
                if seen_main:
                    k = "subroutine"
                seen_main = True
            self.unit_no += 1
            getattr(self, "unit_" + k)()
        return Program(self.out, self.std, {})

    # ------------------------------------------------------------------ units
    def _end(self, word, name, allow_bare=True):
        c = self.r.random()
        compact = self.p(0.2)
        endw = ("end" + word.replace(" ", "")) if compact else ("end " + word)
        if c < 0.55 and name:
            self.env.note(name)
            return endw + " " + name
        if c < 0.85 or not allow_bare:
            return endw
        return "end"

    def unit_program(self):
        ctx = Ctx("program")
        name = self.env.fresh()
        has_stmt = self.p(0.85)
        if self.n_units > 1 and not self.bare_main_multi:
            # a main program without PROGRAM statement next to other units is the
            # documented "only the main program is output" limitation; C02 owns it
            has_stmt = True
        cid = self.new_cid()
        ctx.cid = cid
        if has_stmt:
            self.S("program", "program " + name, cid=cid, role="open", flags={"unit_open"})
            self.depth += 1
        else:
            self.env.take_used()
            name = None
        self.spec_part(ctx)
        self.exec_part(ctx)
        self.contains_part(ctx)
        if has_stmt:
            self.depth -= 1
        self.S("end_program", self._end("program", name), cid=cid, role="close", flags={"unit_close"})

    def _dummy_args(self, n=None, altret=False):
        r = self.r
        if n is None:
            n = r.choice([0, 1, 2, 3])
        args = [self.env.scalar() for _ in range(n)]
        args = list(dict.fromkeys(args))
        if altret and self.p(0.15):
            args.append("*")
        return args

    def unit_subroutine(self, internal=False, in_module=False, in_interface=False):
        ctx = Ctx("subroutine", internal, in_module, in_interface)
        name = self.env.fresh()
        cid = self.new_cid()
        ctx.cid = cid
        pre = ""
        if self.p(0.2):
            pre = self.r.choice(["pure ", "elemental ", "recursive ", "pure recursive "])
        args = self._dummy_args(altret=not in_interface)
        if args:
            arglist = "(" + ", ".join(args) + ")"
        else:
            arglist = "{-()-}" if self.p(0.4) else ""
        suffix = ""
        if self.p(0.1) and "elemental" not in pre:
            suffix = " bind(c)" if self.p(0.5) else " bind(c, name = 'c_%s')" % name.lower()
            if not args:
                arglist = "{-()-}"
        self.S("subroutine", "%ssubroutine %s%s%s" % (pre, name, arglist, suffix), cid=cid,
               role="open", flags={"unit_open"})
        self.depth += 1
        self.spec_part(ctx)
        if not in_interface:
            self.exec_part(ctx)
            if not internal:
                self.contains_part(ctx)
        self.depth -= 1
        self.S("end_subroutine", self._end("subroutine", name, allow_bare=not (internal or in_module or in_interface)),
               cid=cid, role="close", flags={"unit_close"})

    def unit_function(self, internal=False, in_module=False, in_interface=False):
        ctx = Ctx("function", internal, in_module, in_interface)
        name = self.env.fresh()
        cid = self.new_cid()
        ctx.cid = cid
        r = self.r
        pre = []
        if self.p(0.2):
            pre.append(r.choice(["pure", "elemental", "recursive"]))
        if self.p(0.35):
            pre.insert(r.randint(0, len(pre)), r.choice(
                ["integer", "real", "real{+(KIND = +}{-(-}8)", "logical", "double precision",
                 "character{+(LEN = +}{-(-}10)", "complex", "type(%s)" % self.env.typename(),
                 "integer(kind = %s)" % self.env.kindname()]))
        args = self._dummy_args()
        text = " ".join(pre + ["function"]) + " %s(%s)" % (name, ", ".join(args))
        if self.p(0.4):
            rv = self.env.scalar()
            c2 = r.random()
            if c2 < 0.12 and "elemental" not in pre:
                text += " result(%s) bind(c)" % rv
            elif c2 < 0.2 and "elemental" not in pre:
                # R1229 allows both orders; RESULT is printed first
                text += " {?suffix-order|bind(c) result(%s)|result(%s) bind(c)?}" % (rv, rv)
            else:
                text += " result(%s)" % rv
        self.S("function", text, cid=cid, role="open", flags={"unit_open"})
        self.depth += 1
        self.spec_part(ctx)
        if not in_interface:
            self.exec_part(ctx)
            if not internal:
                self.contains_part(ctx)
        self.depth -= 1
        self.S("end_function", self._end("function", name, allow_bare=not (internal or in_module or in_interface)),
               cid=cid, role="close", flags={"unit_close"})

    def unit_module(self):
        ctx = Ctx("module", in_module=True)
        name = self.env.fresh()
        cid = self.new_cid()
        self.S("module", "module " + name, cid=cid, role="open", flags={"unit_open"})
        self.depth += 1
        self.spec_part(ctx)
        if self.p(0.7):
            self.S("contains", "contains", cid=cid, role="mid")
            for _ in range(self.r.choice([0, 1, 1, 2, 3])):
                if self.p(0.5):
                    self.unit_subroutine(in_module=True)
                else:
                    self.unit_function(in_module=True)
        self.depth -= 1
        self.S("end_module", self._end("module", name), cid=cid, role="close", flags={"unit_close"})

    def unit_submodule(self):
        ctx = Ctx("submodule", in_module=True)
        name = self.env.fresh()
        cid = self.new_cid()
        parent = self.env.modname()
        if self.p(0.3):
            parent += ":" + self.env.modname()
        self.S("submodule", "submodule (%s) %s" % (parent, name), cid=cid, role="open",
               flags={"unit_open", "f2008"})
        self.depth += 1
        self.spec_part(ctx)
        if self.p(0.6):
            self.S("contains", "contains", cid=cid, role="mid")
            for _ in range(self.r.choice([0, 1, 2])):
                if self.p(0.5):
                    self.unit_subroutine(in_module=True)
                else:
                    self.unit_function(in_module=True)
        self.depth -= 1
        self.S("end_submodule", self._end("submodule", name), cid=cid, role="close",
               flags={"unit_close", "f2008"})

    def unit_blockdata(self):
        ctx = Ctx("blockdata")
        name = self.env.fresh() if self.p(0.7) else None
        cid = self.new_cid()
        kw = "block data" if self.p(0.7) else "blockdata"
        self.S("blockdata", kw + (" " + name if name else ""), cid=cid, role="open", flags={"unit_open"})
        self.depth += 1
        for _ in range(self.r.randint(0, 5)):
            self.r.choice([self.st_typedecl, self.st_common, self.st_data, self.st_dimension,
                           self.st_parameter, self.st_equivalence, self.st_save])(ctx)
        self.depth -= 1
        self.S("end_blockdata", self._end("block data", name), cid=cid, role="close", flags={"unit_close"})

    def contains_part(self, ctx):
        if not self.p(0.35):
            return
        self.S("contains", "contains", cid=ctx.cid, role="mid")
        for _ in range(self.r.choice([1, 1, 2])):
            if self.p(0.5):
                self.unit_subroutine(internal=True)
            else:
                self.unit_function(internal=True)

    # ------------------------------------------------------------- spec part
    def spec_part(self, ctx):
        r = self.r
        n = lambda k: int(round(k * self.size))  # noqa: E731
        if not ctx.in_interface or True:
            for _ in range(r.choice([0, 0, 1, 2])):
                self.st_use(ctx)
        if ctx.in_interface and self.p(0.5):
            self.st_import(ctx)
        if self.p(0.5):
            self.st_implicit(ctx)
        decls = [self.st_typedecl] * 6 + [self.st_parameter, self.st_dimension, self.st_attr,
                                           self.st_common, self.st_equivalence, self.st_namelist,
                                           self.st_external, self.st_save, self.st_procdecl]
        if not ctx.in_interface and not ctx.in_module:
            decls += [self.st_cray_pointer]
        if not ctx.in_interface:
            decls += [self.derived_type, self.interface_block, self.enum_def, self.st_data]
            if not ctx.in_module:
                decls += [self.st_format]
        if ctx.in_module:
            decls += [self.st_access, self.st_access, self.st_protected, self.st_bind]
        if ctx.ukind in ("subroutine", "function"):
            decls += [self.st_intent, self.st_optional, self.st_value]
            if not ctx.internal and not ctx.in_interface:
                decls += [self.st_entry]
        if self.f08:
            decls += [self.st_f08_decl]
        k = r.randint(0, max(1, n(7)))
        if ctx.in_interface:
            k = r.randint(0, 3)
        for _ in range(k):
            r.choice(decls)(ctx)

    def st_use(self, ctx):
        r = self.r
        m = self.env.modname()
        c = r.random()
        if c < 0.3:
            t = "use " + m
        elif c < 0.4:
            t = "use :: " + m
        elif c < 0.55:
            t = "use, %s :: %s" % (r.choice(["intrinsic", "non_intrinsic"]), m)
        else:
            t = "use " + m
        c = r.random()
        if c < 0.4:
            items = []
            for _ in range(r.randint(0, 3)):
                c2 = r.random()
                if c2 < 0.5:
                    items.append(self.env.scalar())
                elif c2 < 0.75:
                    items.append("%s => %s" % (self.env.scalar(), self.env.scalar()))
                elif c2 < 0.85:
                    items.append("operator(%s)" % r.choice(["+", ".dot.", "==", ".X."]))
                else:
                    items.append("assignment(=)")
            t += ", only: " + ", ".join(items)
        elif c < 0.55:
            t += ", %s => %s" % (self.env.scalar(), self.env.scalar())
            if self.p(0.3):
                t += ", operator(.a.) => operator(.b.)"
        self.S("use", t)

    def st_import(self, ctx):
        if self.p(0.4):
            self.S("import", "import")
        else:
            self.S("import", "import %s%s" % ("{+:: +}" if self.p(0.5) else ":: ",
                                              ", ".join(self.env.typename() for _ in range(self.r.randint(1, 2)))))

    def st_implicit(self, ctx):
        r = self.r
        if self.p(0.7):
            self.S("implicit", "implicit none")
        else:
            specs = []
            for _ in range(r.randint(1, 2)):
                ty = r.choice(["integer", "real", "double precision", "logical", "complex",
                               "real(8)" if False else "real{+(KIND = +}{-(-}8)", "character{+(LEN = +}{-(-}4)"])
                a = r.choice("abcfgh")
                b = r.choice("opqxyz")
                rng = r.choice(["(%s-%s)" % (a, b), "(%s)" % a, "(%s, %s-%s)" % (r.choice("ijk"), a, b)])
                specs.append(ty + " " + rng)
            self.S("implicit", "implicit " + ", ".join(specs))

    def type_spec(self, allow_derived=True):
        r = self.r
        opts = [
            "integer", "real", "logical", "complex", "double precision", "character",
            "integer{+(KIND = +}{-(-}4)", "real{+(KIND = +}{-(-}8)", "integer(kind = %s)" % self.env.kindname(),
            "real(kind = 8)", "logical{+(KIND = +}{-(-}4)", "integer*8", "real*4", "complex*16",
            "character{+(LEN = +}{-(-}10)", "character(len = *)", "character(len = :)",
            "character*10", "character*(*)", "character(len = 5, kind = 1)",
            "character{+(LEN = +}{-(-}5, {+KIND = +}1)",
            "{?char-selector-order|character(kind = 1, len = 3)|character(len = 3, kind = 1)?}",
            "integer(kind = selected_int_kind(9))", "real(selected_real_kind(6, 30))"
            if False else "real(kind = kind(1.0d0))",
            "doubleprecision" if False else "double precision",
        ]
        if allow_derived:
            opts += ["type(%s)" % self.env.typename(), "class(%s)" % self.env.typename(), "class(*)",
                     "type(%s(%s = 4, %s = 10))" % (self.env.typename(), self.env.kindname(), self.env.const()),
                     "type(%s(8, :))" % self.env.typename(), "class(%s(4, *))" % self.env.typename()]
        return r.choice(opts)

    def entity(self, init=True, arrays=True):
        r = self.r
        e = self.env.scalar() if self.p(0.7) else self.env.array()
        if arrays and self.p(0.3):
            dims = []
            for _ in range(r.choice([1, 1, 2])):
                dims.append(r.choice(["10", ":", "0:9", "n" if False else self.env.scalar(), "*", "3"]))
            if "*" in dims:
                dims = [d for d in dims if d != "*"] + ["*"]
            if ":" in dims:
                dims = [":"] * len(dims)
            e += "(" + ", ".join(dims) + ")"
        if init and self.p(0.25):
            e += " = " + self.nexpr(1)
        return e

    def st_typedecl(self, ctx):
        r = self.r
        ts = self.type_spec()
        attrs = []
        pool = ["dimension(10)", "dimension(:, :)", "allocatable", "pointer", "target", "save",
                "parameter", "intent(in)", "intent(out)", "intent(in out)" if False else "intent(inout)",
                "optional", "volatile", "asynchronous", "external", "intrinsic", "value",
                "public", "private", "protected", "bind(c)", "dimension(0:*)"]
        for _ in range(r.choice([0, 0, 1, 1, 2, 3])):
            a = r.choice(pool)
            if a.split("(")[0] not in [x.split("(")[0] for x in attrs]:
                attrs.append(a)
        if self.f08 and self.p(0.1):
            attrs.append("contiguous")
        ents = [self.entity(init="parameter" in attrs or self.p(0.3)) for _ in range(r.randint(1, 3))]
        if "parameter" in attrs:
            ents = [e if "=" in e else e + " = " + self.nexpr(0) for e in ents]
        flags = set()
        if "contiguous" in attrs:
            flags.add("f2008")
        has_init = any("=" in e for e in ents)
        if attrs or has_init or self.p(0.6):
            sep = " :: "
        else:
            sep = " {+:: +}"
        if ts.startswith("character*") and sep != " :: " and self.p(0.5):
            # character*10 a, b*5
            ents = [e + ("*5" if "(" not in e and "=" not in e and self.p(0.3) else "") for e in ents]
        t = ts + "".join(", " + a for a in attrs) + sep + ", ".join(ents)
        self.S("typedecl", t, flags=flags)

    def st_parameter(self, ctx):
        items = ["%s = %s" % (self.env.const(), self.nexpr(1)) for _ in range(self.r.randint(1, 3))]
        self.S("parameter", "parameter (%s)" % ", ".join(items))

    def st_dimension(self, ctx):
        items = ["%s(%s)" % (self.env.array(), self.r.choice(["10", "2, 3", "0:9", "n, *" if False else "5, *"]))
                 for _ in range(self.r.randint(1, 2))]
        self.S("dimension", "dimension %s%s" % ("{+:: +}" if self.p(0.5) else ":: ", ", ".join(items)))

    def st_attr(self, ctx):
        r = self.r
        kw = r.choice(["allocatable", "pointer", "target", "volatile", "asynchronous"])
        names = ", ".join(self.env.array() + (r.choice(["(:)", "(:, :)"]) if kw in ("allocatable", "pointer", "target") and self.p(0.4) else "")
                          for _ in range(r.randint(1, 2)))
        if kw in ("allocatable", "asynchronous"):
            # fparser prints these two without '::'
            colons = "{-:: -}" if self.p(0.5) else ""
        else:
            colons = "{+:: +}" if self.p(0.5) else ":: "
        self.S("attr_stmt", "%s %s%s" % (kw, colons, names))

    def st_cray_pointer(self, ctx):
        """Cray pointer statement (an extension fparser2 enables by default): POINTER (pointer, pointee[(array-spec)]) [, ...]"""
        r = self.r
        decls = []
        for _ in range(r.choice([1, 1, 2, 3])):
            pointee = self.env.array()
            if self.p(0.5):
                pointee += "(%s)" % r.choice(["10", "2, 3", "0:9", "n", "5, *", "*"])
            decls.append("(%s, %s)" % (self.env.scalar(), pointee))
        self.S("cray_pointer", "pointer %s" % ", ".join(decls))

    def st_intent(self, ctx):
        self.S("intent", "intent(%s) %s%s" % (self.r.choice(["in", "out", "inout", "in out" if False else "inout"]),
                                             "{+:: +}" if self.p(0.4) else ":: ",
                                             ", ".join(self.env.scalar() for _ in range(self.r.randint(1, 2)))))

    def st_optional(self, ctx):
        self.S("optional", "optional %s%s" % ("{+:: +}" if self.p(0.4) else ":: ", self.env.scalar()))

    def st_value(self, ctx):
        self.S("value", "value %s%s" % ("{+:: +}" if self.p(0.4) else ":: ", self.env.scalar()))

    def st_protected(self, ctx):
        self.S("protected", "protected %s%s" % ("{+:: +}" if self.p(0.4) else ":: ", self.env.scalar()))

    def st_external(self, ctx):
        if self.p(0.5):
            self.S("external", "external %s%s" % ("{+:: +}" if self.p(0.5) else ":: ",
                                                  ", ".join(self.env.function() for _ in range(self.r.randint(1, 2)))))
        else:
            self.S("intrinsic", "intrinsic %s%s" % ("{+:: +}" if self.p(0.5) else ":: ",
                                                    ", ".join(self.r.sample(["sin", "cos", "max", "sqrt", "abs"], self.r.randint(1, 2)))))

    def st_save(self, ctx):
        c = self.r.random()
        if c < 0.3:
            self.S("save", "save")
        else:
            items = [self.env.scalar() if self.p(0.7) else "/%s/" % self.env.const() for _ in range(self.r.randint(1, 2))]
            self.S("save", "save %s%s" % ("{+:: +}" if self.p(0.5) else ":: ", ", ".join(items)))

    def st_access(self, ctx):
        r = self.r
        kw = r.choice(["public", "private"])
        if self.p(0.3):
            self.S("access", kw)
        else:
            items = []
            for _ in range(r.randint(1, 3)):
                c = r.random()
                if c < 0.7:
                    items.append(self.env.scalar())
                elif c < 0.85:
                    items.append("operator(%s)" % r.choice(["+", "*", ".dot.", "==", "//"]))
                else:
                    items.append("assignment(=)")
            self.S("access", "%s %s%s" % (kw, "{+:: +}" if self.p(0.4) else ":: ", ", ".join(items)))

    def st_common(self, ctx):
        r = self.r
        parts = []
        first = True
        for _ in range(r.randint(1, 2)):
            names = ", ".join(self.env.scalar() + ("(10)" if self.p(0.2) else "") for _ in range(r.randint(1, 3)))
            c = r.random()
            if c < 0.6:
                parts.append("/%s/ %s" % (self.env.const(), names))
            elif first and c < 0.8:
                parts.append("{?blank-common-slashes||// ?}" + names)
            else:
                parts.append("// " + names)
            first = False
        sep = " "
        text = "common " + parts[0]
        for p in parts[1:]:
            # the comma in front of a further block is optional and not printed (not a listed canonicalisation)
            text += ("{?common-block-comma|,| ?}" if self.p(0.2) else "") + " " + p
        self.S("common", text)

    def st_equivalence(self, ctx):
        sets = []
        for _ in range(self.r.randint(1, 2)):
            objs = [self.env.scalar() if self.p(0.6) else "%s(%s)" % (self.env.array(), self.eg.int_lit().split("_")[0])
                    for _ in range(self.r.randint(2, 3))]
            sets.append("(" + ", ".join(objs) + ")")
        self.S("equivalence", "equivalence " + ", ".join(sets))

    def st_namelist(self, ctx):
        groups = []
        for _ in range(self.r.randint(1, 2)):
            groups.append("/%s/ %s" % (self.env.const(), ", ".join(self.env.scalar() for _ in range(self.r.randint(1, 3)))))
        self.S("namelist", "namelist " + ", ".join(groups))

    def data_value(self):
        r = self.r
        c = r.random()
        if c < 0.35:
            v = self.eg.int_lit().split("_")[0]
        elif c < 0.6:
            v = self.eg.real_lit()
        elif c < 0.7:
            v = r.choice(["'abc'", '"x y"', "'it''s'"])
        elif c < 0.8:
            v = r.choice([".true.", ".false."])
        elif c < 0.88:
            v = "(1.0, 2.0)"
        elif c < 0.92:
            v = r.choice(["-1", "+2.5", "-1.0e-3"])
        elif c < 0.95:
            v = r.choice(["z'1f'", 'b"1010"', "o'17'", "Z'FF'"])
        else:
            v = self.env.const()
        if self.p(0.2):
            v = "%d*%s" % (r.randint(2, 9), v)
        return v

    def st_data(self, ctx):
        r = self.r
        sets = []
        for _ in range(r.randint(1, 2)):
            c = r.random()
            if c < 0.7:
                objs = [self.env.scalar() for _ in range(r.randint(1, 2))]
                vals = [self.data_value() for _ in objs]
                sets.append("%s /%s/" % (", ".join(objs), ", ".join(vals)))
            elif c < 0.9:
                v = self.env.loopvar()
                if self.p(0.4):
                    sets.append("(%s(%s), %s = 2, 10, 2) /5*%s/" % (self.env.array(), v, v, r.choice(["0", "1.0"])))
                else:
                    sets.append("(%s(%s), %s = 1, 10) /10*%s/" % (self.env.array(), v, v, r.choice(["0", "1.0"])))
            else:
                v, w = self.env.loopvar(), self.env.loopvar()
                if self.p(0.4):
                    sets.append("((%s(%s, %s), %s = 1, 4, 2), %s = 1, 3, 1) /6*0/" % (self.env.array(), v, w, v, w))
                else:
                    sets.append("((%s(%s, %s), %s = 1, 2), %s = 1, 3) /6*0/" % (self.env.array(), v, w, v, w))
        self.S("data", "data " + ", ".join(sets))

    def st_procdecl(self, ctx):
        r = self.r
        iface = r.choice(["", self.env.procname(), "real", "integer"])
        attrs = r.choice(["", ", pointer", ", optional" if ctx.ukind in ("subroutine", "function") else ", pointer",
                          ", save, pointer" if False else ", pointer"])
        ent = self.env.procname()
        if ctx.ukind in ("subroutine", "function") and "pointer" in attrs and self.p(0.25):
            attrs = r.choice([", intent(in)", ", intent(inout)", ", intent(out)"]) + attrs
        elif "pointer" in attrs and self.p(0.4):
            ent += " => null()"
        self.S("procdecl", "procedure(%s)%s %s %s" % (iface, attrs, "::" if attrs else "{-::-}", ent))

    def st_entry(self, ctx):
        name = self.env.fresh()
        args = self._dummy_args()
        if args:
            t = "entry %s(%s)" % (name, ", ".join(args))
        else:
            t = "entry %s%s" % (name, "()" if self.p(0.5) else "{+()+}")
        if ctx.ukind == "function" and self.p(0.4):
            if "{+()+}" in t:
                t = t.replace("{+()+}", "()")
            t += " result(%s)" % self.env.scalar()
        self.S("entry", t)

    def st_bind(self, ctx):
        """BIND statement (R522): the '::' is optional, entities are variables or /common-block/ names"""
        r = self.r
        spec = r.choice(["bind(c)", "bind(c)", "bind(c, name = 'c_%s')" % self.env.const().lower(), "BIND(C)"])
        ents = [r.choice([self.env.scalar(), "/%s/" % self.env.const()]) for _ in range(1 if "name" in spec else r.randint(1, 2))]
        sep = " :: " if self.p(0.6) else "{+ ::+} "
        self.S("bind", spec + sep + ", ".join(ents))

    def st_f08_decl(self, ctx):
        r = self.r
        c = r.random()
        if c < 0.15:
            self.S("codimension_decl", "real, allocatable, codimension[%s] :: %s" % (r.choice([":", ":, :"]), self.env.scalar()),
                   flags={"f2008"})
        elif c < 0.4:
            self.S("codimension_decl", "integer, codimension[%s] :: %s" % (r.choice(["*", "2, *", "0:*"]), self.env.scalar()),
                   flags={"f2008"})
        elif c < 0.7:
            self.S("contiguous_decl", "real, contiguous, pointer :: %s(:)" % self.env.array(), flags={"f2008"})
        else:
            self.S("codimension_decl", "real, dimension(10), codimension[*] :: %s" % self.env.array(), flags={"f2008"})

    # ---- FORMAT
    def fmt_item(self, d):
        r = self.r
        c = r.random()
        if d > 0 and c < 0.15:
            n = r.choice(["", "2", "3"])
            return "%s(%s)" % (n, self.fmt_list(d - 1))
        data = ["i5", "i3.3", "f8.3", "e12.4", "es12.3e2", "en12.3", "d10.2", "g10.3", "a", "a10",
                "l1", "b8.8", "o4", "z8", "f10.0", "e12.4e3"]
        ctl = ["1x", "3x", "tl3", "tr2", "t10", "sp", "ss", "s", "bn", "bz", "1p", "2p", ":", "/",
               "rz", "ru", "dc", "dp"]
        if c < 0.6:
            x = r.choice(data)
            if self.p(0.3):
                x = r.choice(["2", "3", "10"]) + x
            if self.p(0.25):
                x = x.upper()
            return x
        if c < 0.82:
            return r.choice(ctl)
        if c < 0.87:
            # scale factor directly in front of a data edit descriptor: the comma is optional (C1002)
            return "%sp{+,+} %s" % (r.choice(["1", "2", "-1"]), r.choice(["e12.4", "f8.3", "d10.2", "g10.3", "2f6.1"]))
        if c < 0.9:
            return r.choice(["3Habc", "5HHello", "1Hx", "4H1234", "3Habc{+,+} /", "2Hxy{+,+} :"])
        if c < 0.93:
            return r.choice(["dt", "DT", "dt'abc'(1, 2)", "dt(3)", 'dt"x y"', "2dt'p'"])
        return r.choice(["'text'", '"t2"', "'it''s'", "'a, b'", "'(x)'"])

    def fmt_list(self, d=2):
        items = [self.fmt_item(d) for _ in range(self.r.randint(1, 5))]
        return ", ".join(items)

    def st_format(self, ctx):
        l = self.label(ctx)
        c = self.r.random()
        if c < 0.08:
            body = ""
        elif c < 0.2:
            # slashes without commas: commas are a documented canonicalisation
            body = "i5{+, +}/{+, +}i3"
        elif c < 0.28:
            body = "{-/-}{+/, +}1x, a{-/-}{+, /+}" if False else "1x, a"
        elif self.f08 and c < 0.36:
            body = "*(%s)" % self.fmt_list(1)
            self.S("format", "format (%s)" % body, label=l, flags={"f2008"})
            return l
        else:
            body = self.fmt_list(2)
        self.S("format", "format (%s)" % body, label=l)
        return l

    # --------------------------------------------------------- derived types
    def derived_type(self, ctx):
        r = self.r
        name = self.env.typename()
        cid = self.new_cid()
        attrs = []
        if ctx.in_module and self.p(0.3):
            attrs.append(r.choice(["public", "private"]))
        if self.p(0.25):
            attrs.append("extends(%s)" % self.env.typename())
        if self.p(0.15):
            attrs.append("abstract")
        if self.p(0.1) and not any(a.startswith("extends") for a in attrs):
            attrs.append("bind(c)")
        params = []
        if self.p(0.2) and not any(a.startswith("bind") for a in attrs):
            params = [self.env.kindname()] + ([self.env.const()] if self.p(0.5) else [])
            params = list(dict.fromkeys(params))
        ptxt = "(%s)" % ", ".join(params) if params else ""
        if attrs:
            t = "type, " + ", ".join(attrs) + " :: " + name + ptxt
        else:
            t = "type " + ("{+:: +}" if self.p(0.5) else ":: ") + name + ptxt
        self.S("type_def", t, cid=cid, role="open")
        self.depth += 1
        for k, pn in enumerate(params):
            self.env.note(pn)
            self.S("type_param_def", "integer, %s :: %s%s" % ("kind" if k == 0 else "len", pn, " = 4" if k == 0 and self.p(0.5) else ""))
        if self.p(0.15) and ctx.in_module:
            self.S("type_private", "private", cid=cid)
        if self.p(0.1) and not any(a.startswith("extends") for a in attrs):
            self.S("type_sequence", "sequence", cid=cid)
        for _ in range(r.randint(0, 4)):
            c = r.random()
            if c < 0.7:
                ts = self.type_spec(allow_derived=False)
                if ts in ("character(len = *)", "character*(*)"):
                    ts = "character(len = 8)"
                cattrs = r.choice(["", "", ", pointer", ", allocatable", ", dimension(3)", ", public" if ctx.in_module else ""])
                ent = self.env.compname()
                if "pointer" in cattrs and self.p(0.5):
                    ent += " => null()"
                elif "allocatable" in cattrs:
                    ent += "(:)"
                elif ts.startswith("character") and "*" not in ts and self.p(0.3):
                    ent += r.choice(["*8", "*(4)", "(2)*3"]) if "dimension" not in cattrs else "*8"
                elif self.p(0.3) and not ts.startswith("character"):
                    ent += " = " + self.eg.int_lit().split("_")[0]
                self.S("component", "%s%s :: %s" % (ts, cattrs, ent))
            elif c < 0.85:
                self.S("component", "type(%s), pointer :: %s => null()" % (self.env.typename(), self.env.compname()))
            else:
                self.S("proc_component", "procedure(%s), pointer, %s :: %s" % (
                    self.env.procname(), r.choice(["nopass", "pass(%s)" % self.env.scalar(), "pass"]), self.env.compname()))
        if self.p(0.4):
            self.depth -= 1
            self.S("type_contains", "contains", cid=cid, role="mid")
            self.depth += 1
            if self.p(0.15):
                self.S("type_private", "private", cid=cid)
            for _ in range(r.randint(0, 4)):
                c = r.random()
                if c < 0.3:
                    self.S("tbp", "procedure %s%s" % ("" if self.p(0.3) else ":: ", self.env.procname()))
                elif c < 0.55:
                    a = r.choice(["pass(%s)" % self.env.scalar(), "nopass", "non_overridable", "public" if ctx.in_module else "pass", "pass"])
                    self.S("tbp", "procedure, %s :: %s => %s" % (a, self.env.procname(), self.env.procname()))
                elif c < 0.65:
                    self.S("tbp", "procedure(%s), deferred :: %s" % (self.env.procname(), self.env.procname()))
                elif c < 0.85:
                    spec = r.choice([self.env.procname(), "operator(+)", "operator(.dot.)", "assignment(=)",
                                     "write(formatted)", "read(unformatted)", "operator(==)"])
                    self.S("generic", "generic%s :: %s => %s" % (r.choice(["", ", public" if ctx.in_module else "", ", private" if ctx.in_module else ""]), spec,
                                                                ", ".join(self.env.procname() for _ in range(r.randint(1, 2)))))
                else:
                    self.S("final", "final %s%s" % ("{+:: +}" if self.p(0.4) else ":: ", ", ".join(self.env.procname() for _ in range(r.randint(1, 2)))))
        self.depth -= 1
        self.S("end_type", self._end("type", name, allow_bare=False), cid=cid, role="close")

    def enum_def(self, ctx):
        cid = self.new_cid()
        self.S("enum", "enum, bind(c)", cid=cid, role="open")
        self.depth += 1
        for _ in range(self.r.randint(1, 3)):
            items = []
            for _ in range(self.r.randint(1, 3)):
                e = self.env.const()
                if self.p(0.4):
                    e += " = " + str(self.r.randint(0, 9))
                items.append(e)
            self.S("enumerator", "enumerator %s%s" % ("{+:: +}" if self.p(0.4) and not any("=" in i for i in items) else ":: ", ", ".join(items)))
        self.depth -= 1
        self.S("end_enum", "end enum" if self.p(0.8) else "endenum", cid=cid, role="close")

    def interface_block(self, ctx):
        r = self.r
        cid = self.new_cid()
        c = r.random()
        spec = None
        if c < 0.35:
            t = "interface"
        elif c < 0.6:
            spec = self.env.procname()
            t = "interface " + spec
        elif c < 0.75:
            spec = "operator(%s)" % r.choice(["+", ".dot.", "==", "*", ".X."])
            t = "interface " + spec
        elif c < 0.82:
            spec = "assignment(=)"
            t = "interface " + spec
        elif c < 0.86:
            spec = r.choice(["write(formatted)", "read(unformatted)", "read(formatted)", "write(unformatted)"])
            t = "interface " + spec
        else:
            t = "abstract interface"
        self.S("interface", t, cid=cid, role="open")
        self.depth += 1
        for _ in range(r.randint(0, 3)):
            c2 = r.random()
            if c2 < 0.35:
                self.unit_subroutine(in_interface=True)
            elif c2 < 0.7:
                self.unit_function(in_interface=True)
            elif not t.startswith("abstract"):
                kw = "module procedure"
                flags = set()
                if self.f08 and self.p(0.3):
                    kw = r.choice(["procedure", "procedure ::", "module procedure ::"])
                    flags = {"f2008"} if "::" in kw else set()
                    if kw == "procedure":
                        flags = set()
                self.S("module_procedure", "%s %s" % (kw, ", ".join(self.env.procname() for _ in range(r.randint(1, 3)))), flags=flags)
        self.depth -= 1
        e = "end interface" if self.p(0.8) else "endinterface"
        if spec and self.p(0.5):
            e += " " + spec
            if "(" not in spec:
                self.env.note(spec)
        self.S("end_interface", e, cid=cid, role="close")

    # ------------------------------------------------------------- exec part
    def exec_part(self, ctx, budget=None):
        r = self.r
        n = r.randint(0, max(2, int(8 * self.size))) if budget is None else budget
        self.body(ctx, n, nest=3)
        for l in ctx.pending:
            self.S("continue", "continue", label=l)
        ctx.pending = []

    def body(self, ctx, n, nest):
        for _ in range(n):
            if nest > 0 and self.p(0.3):
                self.construct(ctx, nest - 1)
            else:
                self.simple(ctx)

    def construct(self, ctx, nest):
        r = self.r
        opts = [self.c_if, self.c_if, self.c_do, self.c_do, self.c_labelled_do, self.c_select_case,
                self.c_select_type, self.c_where, self.c_forall, self.c_associate]
        if self.f08:
            opts += [self.c_block, self.c_critical, self.c_do_concurrent]
        r.choice(opts)(ctx, nest)

    def _cname(self):
        return self.env.fresh() if self.p(0.3) else None

    def _olabel(self, ctx):
        """optional statement label on a construct opener (e.g. '10 nm: if (...) then')"""
        return self.label(ctx) if self.p(0.12) else None

    def _sub(self, ctx, nest, maxn=3):
        self.depth += 1
        self.body(ctx, self.r.randint(0, maxn), nest)
        self.depth -= 1

    def c_if(self, ctx, nest):
        cid = self.new_cid()
        name = self._cname()
        self.S("if_then", "if (%s) then" % self.lexpr(), cname=name, cid=cid, role="open", label=self._olabel(ctx))
        self._sub(ctx, nest)
        nm = lambda: (" " + self.env.note(name)) if name and self.p(0.6) else ""  # noqa: E731
        for _ in range(self.r.choice([0, 0, 1, 2])):
            kw = "else if" if self.p(0.7) else "elseif"
            self.S("else_if", "%s (%s) then%s" % (kw, self.lexpr(), nm()), cid=cid, role="mid")
            self._sub(ctx, nest)
        if self.p(0.5):
            self.S("else", "else" + nm(), cid=cid, role="mid")
            self._sub(ctx, nest)
        e = "end if" if self.p(0.7) else "endif"
        self.S("end_if", e + ((" " + self.env.note(name)) if name else ""), cid=cid, role="close")

    def loop_control(self):
        r = self.r
        c = r.random()
        if c < 0.65:
            t = "%s = %s, %s" % (self.env.loopvar(), self.iexpr(0), self.iexpr(1))
            if self.p(0.3):
                t += ", " + self.iexpr(0)
            return t
        if c < 0.85:
            return "while (%s)" % self.lexpr()
        return ""

    def c_do(self, ctx, nest):
        cid = self.new_cid()
        name = self._cname()
        lc = self.loop_control()
        if lc and not lc.startswith("while") and self.p(0.1):
            lc = ", " + lc
            t = "do" + lc
        else:
            t = "do " + lc if lc else "do"
        self.S("do", t, cname=name, cid=cid, role="open", label=self._olabel(ctx))
        ctx.loops.append(name)
        self._sub(ctx, nest)
        ctx.loops.pop()
        e = "end do" if self.p(0.7) else "enddo"
        self.S("end_do", e + ((" " + self.env.note(name)) if name else ""), cid=cid, role="close")

    def c_labelled_do(self, ctx, nest):
        r = self.r
        cid = self.new_cid()
        l = self.label(ctx)
        style = r.choice(["continue", "enddo", "action", "shared"])
        if style in ("action", "shared") and ctx.nonblock_depth >= 2:
            style = "continue"
        name = self._cname() if style == "enddo" else None
        lc = "%s = %s, %s" % (self.env.loopvar(), self.iexpr(0), self.iexpr(0))
        self.S("label_do", "do %s%s%s" % (l, ", " if self.p(0.1) else " ", lc), cname=name, cid=cid, role="open",
               extra={"do_label": l, "style": style})
        ctx.loops.append(name)
        if style in ("action", "shared"):
            ctx.nonblock_depth += 1
        self.depth += 1
        if style == "shared":
            cid2 = self.new_cid()
            self.S("label_do", "do %s %s = %s, %s" % (l, self.env.loopvar(), self.iexpr(0), self.iexpr(0)), cid=cid2,
                   role="open", extra={"do_label": l, "style": "shared-inner"})
            ctx.loops.append(None)
            self.depth += 1
            self.body(ctx, r.randint(0, 2), min(nest, 1))
            self.depth -= 1
            ctx.loops.pop()
        else:
            self.body(ctx, r.randint(0, 3), nest)
        self.depth -= 1
        ctx.loops.pop()
        if style in ("action", "shared"):
            ctx.nonblock_depth -= 1
        if style == "continue" or (style == "shared" and self.p(0.6)):
            self.S("do_term_continue", "continue", label=l, cid=cid, role="close", extra={"style": style})
        elif style == "enddo":
            self.S("end_do", ("end do" if self.p(0.7) else "enddo") + ((" " + self.env.note(name)) if name else ""),
                   label=l, cid=cid, role="close", extra={"style": style})
        else:
            # non-block: terminated by an action statement
            self.S("do_term_action", "%s = %s" % (self.var(), self.nexpr(1)), label=l, cid=cid, role="close",
                   extra={"style": style})

    def c_select_case(self, ctx, nest):
        r = self.r
        cid = self.new_cid()
        name = self._cname()
        kw = "select case" if self.p(0.8) else "selectcase"
        self.S("select_case", "%s (%s)" % (kw, self.iexpr(1)), cname=name, cid=cid, role="open", label=self._olabel(ctx))
        nm = lambda: (" " + self.env.note(name)) if name and self.p(0.6) else ""  # noqa: E731
        for _ in range(r.randint(0, 3)):
            c = r.random()
            if c < 0.4:
                sel = "(%s)" % r.randint(1, 9)
            elif c < 0.6:
                sel = "(%d:%d, %d)" % (r.randint(1, 3), r.randint(4, 6), r.randint(7, 9))
            elif c < 0.7:
                sel = "(:%d)" % r.randint(0, 5)
            elif c < 0.8:
                sel = "(%d:)" % r.randint(10, 20)
            elif c < 0.9:
                sel = "('a', \"b c\")"
            else:
                sel = "(%s)" % self.env.const()
            self.S("case", "case %s%s" % (sel, nm()), cid=cid, role="mid")
            self._sub(ctx, nest, 2)
        if self.p(0.5):
            self.S("case_default", "case default" + nm(), cid=cid, role="mid")
            self._sub(ctx, nest, 2)
        e = "end select" if self.p(0.8) else "endselect"
        self.S("end_select", e + ((" " + self.env.note(name)) if name else ""), cid=cid, role="close")

    def c_select_type(self, ctx, nest):
        r = self.r
        cid = self.new_cid()
        name = self._cname()
        sel = self.env.structvar()
        if self.p(0.5):
            sel = "%s => %s" % (self.env.scalar(), sel)
        kw = "select type" if self.p(0.8) else "selecttype"
        self.S("select_type", "%s (%s)" % (kw, sel), cname=name, cid=cid, role="open")
        nm = lambda: (" " + self.env.note(name)) if name and self.p(0.6) else ""  # noqa: E731
        for _ in range(r.randint(0, 3)):
            c = r.random()
            if c < 0.4:
                g = "type is (%s)" % self.env.typename()
            elif c < 0.6:
                g = "type is (%s)" % r.choice(["integer", "real{+(KIND = +}{-(-}8)", "character(len = *)", "logical"])
            else:
                g = "class is (%s)" % self.env.typename()
            self.S("type_guard", g + nm(), cid=cid, role="mid")
            self._sub(ctx, nest, 2)
        if self.p(0.4):
            self.S("type_guard", "class default" + nm(), cid=cid, role="mid")
            self._sub(ctx, nest, 2)
        e = "end select" if self.p(0.8) else "endselect"
        self.S("end_select", e + ((" " + self.env.note(name)) if name else ""), cid=cid, role="close")

    def where_body(self, ctx, nest):
        self.depth += 1
        for _ in range(self.r.randint(0, 3)):
            c = self.r.random()
            if c < 0.7:
                self.S("assign", "%s = %s" % (self.env.array(), self.nexpr(1)), flags={"simple"})
            elif c < 0.85:
                self.S("where_stmt", "where (%s) %s = %s" % (self.lexpr(1), self.env.array(), self.nexpr(0)), flags={"simple"})
            elif nest > 0:
                self.c_where(ctx, nest - 1)
        self.depth -= 1

    def c_where(self, ctx, nest):
        cid = self.new_cid()
        name = self._cname()
        self.S("where", "where (%s)" % self.lexpr(1), cname=name, cid=cid, role="open", label=self._olabel(ctx))
        self.where_body(ctx, nest)
        nm = lambda: (" " + self.env.note(name)) if name and self.p(0.6) else ""  # noqa: E731
        for _ in range(self.r.choice([0, 0, 1])):
            kw = "elsewhere" if self.p(0.7) else "else where"
            self.S("masked_elsewhere", "%s (%s)%s" % (kw, self.lexpr(1), nm()), cid=cid, role="mid")
            self.where_body(ctx, nest)
        if self.p(0.5):
            kw = "elsewhere" if self.p(0.7) else "else where"
            self.S("elsewhere", kw + nm(), cid=cid, role="mid")
            self.where_body(ctx, nest)
        e = "end where" if self.p(0.7) else "endwhere"
        self.S("end_where", e + ((" " + self.env.note(name)) if name else ""), cid=cid, role="close")

    def forall_header(self):
        r = self.r
        trips = []
        for _ in range(r.choice([1, 1, 2])):
            t = "%s = %s:%s" % (self.env.loopvar(), self.iexpr(0), self.iexpr(0))
            if self.p(0.2):
                t += ":" + str(r.randint(1, 3))
            trips.append(t)
        if self.p(0.3):
            trips.append(self.lexpr(1))
        return "(" + ", ".join(trips) + ")"

    def c_forall(self, ctx, nest):
        cid = self.new_cid()
        name = self._cname()
        self.S("forall", "forall " + self.forall_header(), cname=name, cid=cid, role="open", label=self._olabel(ctx))
        self.depth += 1
        for _ in range(self.r.randint(0, 3)):
            c = self.r.random()
            if c < 0.6:
                self.S("assign", "%s = %s" % (self.eg.array_ref(1, sections=False), self.nexpr(1)), flags={"simple"})
            elif c < 0.7:
                self.S("ptr_assign", "%s%%%s => %s" % (self.env.structvar(), self.env.compname(), self.env.scalar()), flags={"simple"})
            elif c < 0.8:
                self.S("forall_stmt", "forall %s %s = %s" % (self.forall_header(), self.eg.array_ref(1, sections=False), self.nexpr(0)), flags={"simple"})
            elif c < 0.9:
                self.S("where_stmt", "where (%s) %s = %s" % (self.lexpr(1), self.env.array(), self.nexpr(0)), flags={"simple"})
            elif nest > 0:
                self.c_forall(ctx, nest - 1)
        self.depth -= 1
        e = "end forall" if self.p(0.7) else "endforall"
        self.S("end_forall", e + ((" " + self.env.note(name)) if name else ""), cid=cid, role="close")

    def c_associate(self, ctx, nest):
        cid = self.new_cid()
        name = self._cname()
        assoc = ["%s => %s" % (self.env.scalar(), self.expr(1) if self.p(0.6) else self.var())
                 for _ in range(self.r.randint(1, 3))]
        self.S("associate", "associate (%s)" % ", ".join(assoc), cname=name, cid=cid, role="open", label=self._olabel(ctx))
        self._sub(ctx, nest)
        e = "end associate" if self.p(0.7) else "endassociate"
        self.S("end_associate", e + ((" " + self.env.note(name)) if name else ""), cid=cid, role="close")

    def c_block(self, ctx, nest):
        cid = self.new_cid()
        name = self._cname()
        self.S("block", "block", cname=name, cid=cid, role="open", flags={"f2008"})
        self.depth += 1
        sub = Ctx(ctx.ukind, ctx.internal, False, False)
        sub.labels, sub.pending, sub.loops = ctx.labels, ctx.pending, ctx.loops
        sub.nonblock_depth = ctx.nonblock_depth
        for _ in range(self.r.randint(0, 2)):
            self.r.choice([self.st_typedecl, self.st_typedecl, self.st_use, self.st_data])(sub) if False else self.st_typedecl(sub)
        self.body(ctx, self.r.randint(0, 3), nest)
        self.depth -= 1
        e = "end block" if self.p(0.7) else "endblock"
        self.S("end_block", e + ((" " + self.env.note(name)) if name else ""), cid=cid, role="close", flags={"f2008"})

    def c_critical(self, ctx, nest):
        cid = self.new_cid()
        name = self._cname()
        self.S("critical", "critical", cname=name, cid=cid, role="open", flags={"f2008"})
        self._sub(ctx, nest)
        e = "end critical" if self.p(0.7) else "endcritical"
        self.S("end_critical", e + ((" " + self.env.note(name)) if name else ""), cid=cid, role="close", flags={"f2008"})

    def c_do_concurrent(self, ctx, nest):
        cid = self.new_cid()
        name = self._cname()
        self.S("do_concurrent", "do concurrent " + self.forall_header(), cname=name, cid=cid, role="open", flags={"f2008"})
        ctx.loops.append(name)
        self._sub(ctx, nest)
        ctx.loops.pop()
        e = "end do" if self.p(0.7) else "enddo"
        self.S("end_do", e + ((" " + self.env.note(name)) if name else ""), cid=cid, role="close")

    # -------------------------------------------------------- simple statements
    def simple(self, ctx):
        r = self.r
        opts = [
            (14, self.x_assign), (3, self.x_ptr_assign), (5, self.x_call), (3, self.x_if_stmt),
            (3, self.x_print), (4, self.x_write), (3, self.x_read), (2, self.x_open), (1, self.x_close),
            (1, self.x_inquire), (2, self.x_filepos), (2, self.x_allocate), (1, self.x_deallocate),
            (1, self.x_nullify), (1, self.x_stop), (2, self.x_goto), (1, self.x_continue),
            (1, self.x_where_stmt), (1, self.x_forall_stmt), (1, self.st_format), (1, self.st_data),
            (1, self.x_arith_if), (1, self.x_labelled),
        ]
        if ctx.loops:
            opts.append((3, self.x_cycle_exit))
        if ctx.ukind in ("subroutine", "function"):
            opts.append((1, self.x_return))
        if self.f08:
            opts.append((1, self.x_error_stop))
        tot = sum(w for w, _ in opts)
        x = r.random() * tot
        for w, f in opts:
            x -= w
            if x <= 0:
                f(ctx)
                return
        opts[0][1](ctx)

    def x_assign(self, ctx):
        self.S("assign", "%s = %s" % (self.var(), self.expr()), flags={"simple"})

    def x_labelled(self, ctx):
        l = self.label(ctx)
        if self.p(0.08) and len(l) < 4:
            l = "0" + l
        self.S("assign", "%s = %s" % (self.var(), self.expr(1)), label=l)

    def x_ptr_assign(self, ctx):
        r = self.r
        c = r.random()
        if c < 0.5:
            t = "%s => %s" % (self.env.scalar(), self.var())
        elif c < 0.7:
            t = "%s => null()" % self.env.scalar()
        elif c < 0.8:
            t = "%s(1:2, 1:3) => %s(1:6)" % (self.env.array(), self.env.array())
        elif c < 0.86:
            # bounds-spec-list: lower bounds only
            t = "%s(%s) => %s" % (self.env.array(), r.choice(["0:", "lo:", "0:, 0:", "-1:, lo:"]).replace("lo", self.env.scalar()),
                                  r.choice([self.env.array(), "%s%%%s" % (self.env.structvar(), self.env.compname())]))
        elif c < 0.9:
            # procedure-pointer component on the left
            t = "%s%%%s => %s" % (self.env.structvar(), self.env.compname(), r.choice([self.env.procname(), "null()"]))
        else:
            t = "%s%%%s => %s" % (self.env.structvar(), self.env.compname(), self.eg.call(1))
        self.S("ptr_assign", t, flags={"simple"})

    def actual_args(self, altret_ctx=None):
        r = self.r
        args = []
        for _ in range(r.choice([1, 1, 2, 3])):
            args.append(self.expr(1))
        if self.p(0.25):
            args.append("%s = %s" % (self.env.keyword(), self.expr(1)))
        if altret_ctx is not None and self.p(0.1):
            args.append("*" + self.ref_label(altret_ctx))
        return ", ".join(args)

    def x_call(self, ctx):
        r = self.r
        c = r.random()
        if c < 0.15:
            t = "call " + self.env.procname() + ("{-()-}" if self.p(0.5) else "")
        elif c < 0.8:
            t = "call %s(%s)" % (self.env.procname(), self.actual_args(ctx))
        elif c < 0.9:
            t = "call %s%%%s(%s)" % (self.env.structvar(), self.env.procname(), self.actual_args())
        else:
            t = "call %s%%%s(%s)%%%s%s" % (self.env.structvar(), self.env.compname(), self.eg.int_lit().split("_")[0],
                                         self.env.procname(), "{-()-}" if self.p(0.5) else "")
        self.S("call", t, flags={"simple"})

    def action_text(self, ctx):
        r = self.r
        c = r.random()
        if c < 0.5:
            return "%s = %s" % (self.var(), self.expr(1))
        if c < 0.65:
            return "call %s(%s)" % (self.env.procname(), self.actual_args())
        if c < 0.75:
            return "print *, " + self.expr(1)
        if c < 0.85:
            return "go to " + self.ref_label(ctx) if self.p(0.5) else "goto " + self.ref_label(ctx)
        if c < 0.9 and ctx.loops:
            return r.choice(["cycle", "exit"])
        if c < 0.95:
            return "stop"
        return "write (*, *) " + self.expr(1)

    def x_if_stmt(self, ctx):
        self.S("if_stmt", "if (%s) %s" % (self.lexpr(), self.action_text(ctx)), flags={"simple"})

    def io_items(self, out=True):
        r = self.r
        items = []
        for _ in range(r.randint(1, 3)):
            c = r.random()
            if c < 0.6:
                items.append(self.expr(1) if out else self.var())
            elif c < 0.8:
                items.append(self.var())
            else:
                v = self.env.loopvar()
                inner = "%s(%s)" % (self.env.array(), v)
                if self.p(0.3):
                    w = self.env.loopvar()
                    items.append("((%s(%s, %s), %s = 1, 2), %s = 1, %s)" % (self.env.array(), v, w, v, w, self.iexpr(0)))
                else:
                    items.append("(%s, %s = 1, %s%s)" % (inner, v, self.iexpr(0), (", " + self.iexpr(0)) if self.p(0.3) else ""))
        return ", ".join(items)

    def fmt_ref(self, ctx):
        r = self.r
        c = r.random()
        if c < 0.35:
            return "*"
        if c < 0.55:
            return self.ref_fmt_label(ctx)
        if c < 0.85:
            return r.choice(["'(a)'", "'(i5, 2f8.3)'", '"(a,\'it\'\'s\')"', "'(1x, a, /, i3)'", '"(3(i2, :, \',\'))"'])
        return self.env.scalar()

    def ref_fmt_label(self, ctx):
        # a label of some FORMAT statement: fparser does not resolve it; emit one later
        return self.ref_label(ctx)

    def x_print(self, ctx):
        f = self.fmt_ref(ctx)
        if self.p(0.15):
            t = "print " + f
        else:
            t = "print %s, %s" % (f, self.io_items())
        self.S("print", t, flags={"simple"})

    def io_unit(self):
        return self.r.choice(["*", "6", "10", self.env.scalar()])

    def x_write(self, ctx):
        r = self.r
        c = r.random()
        if c < 0.4:
            ctl = "%s, %s" % (self.io_unit(), self.fmt_ref(ctx))
        elif c < 0.6:
            ctl = "unit = %s, fmt = %s" % (self.io_unit(), self.fmt_ref(ctx))
        elif c < 0.7:
            ctl = "%s" % r.choice(["10", self.env.scalar()])
        elif c < 0.8:
            ctl = "%s, nml = %s" % (r.choice(["10", self.env.scalar()]), self.env.const())
            self.S("write", "write (%s)" % ctl, flags={"simple"})
            return
        else:
            ctl = "%s, %s" % (self.io_unit(), self.fmt_ref(ctx))
        extra = []
        if self.p(0.3):
            extra.append("iostat = " + self.env.scalar())
        if self.p(0.15):
            extra.append("err = " + self.ref_label(ctx))
        if self.p(0.15) and "fmt" in ctl or ", '" in ctl:
            extra.append("advance = 'no'")
        if self.p(0.1):
            extra.append("rec = " + self.iexpr(0))
        if extra:
            ctl += ", " + ", ".join(extra)
        t = "write (%s)" % ctl
        if self.p(0.9):
            t += " " + self.io_items()
        self.S("write", t, flags={"simple"})

    def x_read(self, ctx):
        r = self.r
        c = r.random()
        if c < 0.25:
            f = self.fmt_ref(ctx)
            while f[0].isalpha() or f[0] == "_":
                # READ <name>, list is deliberately not recognised by fparser
                # (Read_Stmt.match) - outside the supported class
                f = self.fmt_ref(ctx)
            t = "read %s, %s" % (f, self.io_items(False))
        else:
            if c < 0.6:
                ctl = "%s, %s" % (self.io_unit(), self.fmt_ref(ctx))
            elif c < 0.8:
                ctl = "unit = %s, fmt = %s" % (self.io_unit(), self.fmt_ref(ctx))
            else:
                ctl = r.choice(["10", self.env.scalar()])
            extra = []
            if self.p(0.3):
                extra.append("iostat = " + self.env.scalar())
            if self.p(0.2):
                extra.append("end = " + self.ref_label(ctx))
            if self.p(0.15):
                extra.append("err = " + self.ref_label(ctx))
            if extra:
                ctl += ", " + ", ".join(extra)
            t = "read (%s) %s" % (ctl, self.io_items(False))
        self.S("read", t, flags={"simple"})

    def _cspecs(self, pool, k):
        r = self.r
        picks = r.sample(pool, min(k, len(pool)))
        out = []
        for p in picks:
            if p in ("iostat", "exist", "opened", "number", "named", "nextrec", "recl_v", "size", "id"):
                out.append("%s = %s" % (p.replace("_v", ""), self.env.scalar()))
            elif p == "err":
                out.append("err = " + self._ctx_label())
            elif p == "file":
                out.append("file = " + r.choice(["'data.txt'", '"in put.dat"', self.env.scalar(), "trim(%s) // '.dat'" % self.env.scalar()]))
            elif p == "recl":
                out.append("recl = " + self.iexpr(0))
            elif p == "iomsg":
                out.append("iomsg = " + self.env.scalar())
            else:
                vals = {"status": ["'old'", "'new'", "'replace'", "'unknown'", "'keep'", "'delete'"],
                        "form": ["'formatted'", "'unformatted'"], "access": ["'direct'", "'sequential'", "'stream'"],
                        "position": ["'append'", "'rewind'"], "action": ["'read'", "'write'", "'readwrite'"],
                        "blank": ["'null'"], "delim": ["'quote'"], "pad": ["'yes'"]}
                out.append("%s = %s" % (p, r.choice(vals[p])))
        return out

    def _ctx_label(self):
        return self.ref_label(self._ctx)

    def x_open(self, ctx):
        self._ctx = ctx
        r = self.r
        u = r.choice(["10", self.env.scalar()])
        first = "{+UNIT = +}" + u if self.p(0.5) else "unit = " + u
        flags = set()
        if self.f08 and self.p(0.2):
            first = "newunit = " + self.env.scalar()
            flags.add("f2008")
        specs = [first] + self._cspecs(["file", "status", "form", "access", "recl", "iostat", "err", "position", "action",
                                        "blank", "delim", "pad", "iomsg"], r.randint(0, 5))
        self.S("open", "open (%s)" % ", ".join(specs), flags=flags | {"simple"})

    def x_close(self, ctx):
        self._ctx = ctx
        u = self.r.choice(["10", self.env.scalar()])
        first = "{+UNIT = +}" + u if self.p(0.5) else "unit = " + u
        specs = [first] + self._cspecs(["status", "iostat", "err", "iomsg"], self.r.randint(0, 2))
        specs = [s for s in specs if not s.startswith("status") or "'keep'" in s or "'delete'" in s]
        self.S("close", "close (%s)" % ", ".join(specs), flags={"simple"})

    def x_inquire(self, ctx):
        self._ctx = ctx
        r = self.r
        c = r.random()
        if c < 0.2:
            t = "inquire (iolength = %s) %s" % (self.env.scalar(), self.io_items())
        else:
            first = ("unit = " + r.choice(["10", self.env.scalar()])) if self.p(0.5) else ("file = " + r.choice(["'f.dat'", self.env.scalar()]))
            specs = [first] + self._cspecs(["exist", "opened", "number", "iostat", "err"], r.randint(1, 3))
            t = "inquire (%s)" % ", ".join(specs)
        self.S("inquire", t, flags={"simple"})

    def x_filepos(self, ctx):
        self._ctx = ctx
        r = self.r
        kw = r.choice(["rewind", "backspace", "endfile", "flush", "wait"])
        u = r.choice(["10", self.env.scalar()])
        c = r.random()
        if kw == "wait" or c < 0.5:
            first = "{+UNIT = +}" + u if self.p(0.5) else "unit = " + u
            specs = [first] + self._cspecs(["iostat", "err"] + (["id"] if kw == "wait" else []), r.randint(0, 2))
            t = "%s (%s)" % (kw, ", ".join(specs))
        else:
            t = "%s %s" % (kw, u)
        self.S(kw, t, flags={"simple"})

    def alloc_obj(self):
        r = self.r
        c = r.random()
        if c < 0.4:
            return "%s(%s)" % (self.env.array(), ", ".join(self.iexpr(0) for _ in range(r.choice([1, 1, 2]))))
        if c < 0.55:
            return "%s(0:%s)" % (self.env.array(), self.iexpr(0))
        if c < 0.75:
            return self.env.scalar()
        return "%s%%%s(%s)" % (self.env.structvar(), self.env.compname(), self.iexpr(0))

    def x_allocate(self, ctx):
        r = self.r
        objs = [self.alloc_obj() for _ in range(r.randint(1, 2))]
        pre = ""
        c = r.random()
        if c < 0.15:
            pre = r.choice(["real :: ", "integer :: ", "character(len = 5) :: ", "%s :: " % self.env.typename()])
        opts = []
        flags = {"simple"}
        if self.p(0.4):
            opts.append("stat = " + self.env.scalar())
        if self.p(0.15):
            opts.append("errmsg = " + self.env.scalar())
        if not pre and self.p(0.15):
            objs = objs[:1]
            if self.f08 and self.p(0.5):
                opts.append("mold = " + self.env.scalar())
                flags.add("f2008")
            else:
                opts.append("source = " + self.expr(1))
        self.S("allocate", "allocate (%s%s)" % (pre, ", ".join(objs + opts)), flags=flags)

    def x_deallocate(self, ctx):
        objs = [self.env.array() if self.p(0.6) else "%s%%%s" % (self.env.structvar(), self.env.compname())
                for _ in range(self.r.randint(1, 3))]
        if self.p(0.4):
            objs.append("stat = " + self.env.scalar())
        self.S("deallocate", "deallocate (%s)" % ", ".join(objs), flags={"simple"})

    def x_nullify(self, ctx):
        self.S("nullify", "nullify (%s)" % ", ".join(self.env.scalar() if self.p(0.6) else self.eg.component(0)
                                                     for _ in range(self.r.randint(1, 2))), flags={"simple"})

    def x_stop(self, ctx):
        c = self.r.random()
        t = "stop" if c < 0.4 else ("stop %d" % self.r.randint(0, 99) if c < 0.7 else "stop 'message text'")
        self.S("stop", t, flags={"simple"})

    def x_error_stop(self, ctx):
        c = self.r.random()
        t = "error stop" if c < 0.4 else ("error stop %d" % self.r.randint(0, 99) if c < 0.7 else "error stop 'bad'")
        self.S("error_stop", t, flags={"simple", "f2008"})

    def x_return(self, ctx):
        self.S("return", "return" if self.p(0.8) or ctx.ukind != "subroutine" else "return 1", flags={"simple"})

    def x_cycle_exit(self, ctx):
        kw = self.r.choice(["cycle", "exit"])
        names = [n for n in ctx.loops if n]
        if names and self.p(0.5):
            self.S(kw, "%s %s" % (kw, self.env.note(self.r.choice(names))), flags={"simple"})
        else:
            self.S(kw, kw, flags={"simple"})

    def x_goto(self, ctx):
        r = self.r
        c = r.random()
        if c < 0.6:
            t = r.choice(["go to ", "goto "]) + self.ref_label(ctx)
        else:
            ls = ", ".join(self.ref_label(ctx) for _ in range(r.randint(1, 3)))
            t = "%s (%s)%s %s" % (r.choice(["go to", "goto"]), ls, r.choice([",", "{?computed-goto-comma||,?}"]), self.iexpr(0))
        self.S("goto", t, flags={"simple"})

    def x_arith_if(self, ctx):
        self.S("arith_if", "if (%s) %s, %s, %s" % (self.iexpr(1), self.ref_label(ctx), self.ref_label(ctx), self.ref_label(ctx)),
               flags={"simple"})

    def x_continue(self, ctx):
        self.S("continue", "continue", label=self.label(ctx) if self.p(0.5) else None)

    def x_where_stmt(self, ctx):
        self.S("where_stmt", "where (%s) %s = %s" % (self.lexpr(1), self.env.array(), self.nexpr(1)), flags={"simple"})

    def x_forall_stmt(self, ctx):
        self.S("forall_stmt", "forall %s %s = %s" % (self.forall_header(), self.eg.array_ref(1, sections=False), self.nexpr(1)),
               flags={"simple"})


def generate(seed, std="f2003", **kw):
    return ProgramGen(seed, std, **kw).generate()
