"""Program model: statements with ground truth.

Template markup inside Stmt.text:
  {-X-}        X is in the source only   (documented canonicalisation removes it)
  {+X+}        X is in the expected regenerated text only (documented
               canonicalisation adds it)
  {?k|S|C?}    known deviation k: the source has S, fparser prints C although
               the property statement does not list that rewrite
"""
import re

from ..lexer import lex

_SRC_ONLY = re.compile(r"\{-(.*?)-\}", re.S)
_CANON_ONLY = re.compile(r"\{\+(.*?)\+\}", re.S)
_DEV = re.compile(r"\{\?([\w-]+)\|(.*?)\|(.*?)\?\}", re.S)


def to_src(text):
    text = _SRC_ONLY.sub(lambda m: m.group(1), text)
    text = _CANON_ONLY.sub("", text)
    text = _DEV.sub(lambda m: m.group(2), text)
    return text


def to_strict(text):
    text = _SRC_ONLY.sub("", text)
    text = _CANON_ONLY.sub(lambda m: m.group(1), text)
    text = _DEV.sub(lambda m: m.group(2), text)
    return text


def to_lenient(text):
    devs = [m.group(1) for m in _DEV.finditer(text)]
    text = _SRC_ONLY.sub("", text)
    text = _CANON_ONLY.sub(lambda m: m.group(1), text)
    text = _DEV.sub(lambda m: m.group(3), text)
    return text, devs


class Stmt:
    __slots__ = (
        "kind", "text", "label", "cname", "names", "flags", "cid", "role",
        "depth", "unit", "uid", "extra", "oid",
    )

    def __init__(self, kind, text, names=(), label=None, cname=None, flags=(), cid=None,
                 role=None, extra=None):
        self.kind = kind
        self.text = text
        self.label = label
        self.cname = cname
        self.names = set(names)
        self.flags = set(flags)
        self.cid = cid
        self.role = role  # 'open' | 'mid' | 'close' | None
        self.depth = 0
        self.unit = None
        self.uid = None
        self.oid = None
        self.extra = extra or {}

    # ---- renderings
    def prefix(self):
        p = ""
        if self.label:
            p += self.label + " "
        if self.cname:
            p += self.cname + ": "
        return p

    def src(self):
        return self.prefix() + to_src(self.text)

    def strict(self):
        return self.prefix() + to_strict(self.text)

    def lenient(self):
        t, devs = to_lenient(self.text)
        pre = self.prefix()
        if self.label and self.label.startswith("0"):
            # fparser stores statement labels as integers
            pre = pre.replace(self.label, self.label.lstrip("0") or "0", 1)
            devs = devs + ["label-leading-zeros"]
        return pre + t, devs

    def src_tokens(self):
        """[(text, cls)] of the source statement (label and construct name
        included as leading tokens)."""
        return lex(self.src(), comments=False)

    def exact_names(self):
        n = set(self.names)
        if self.cname:
            n.add(self.cname)
        return n

    def to_json(self):
        return {
            "kind": self.kind, "text": self.text, "label": self.label, "cname": self.cname,
            "names": sorted(self.names), "flags": sorted(self.flags), "cid": self.cid,
            "role": self.role, "depth": self.depth, "unit": self.unit, "extra": self.extra,
            "oid": self.oid,
        }

    @classmethod
    def from_json(cls, d):
        s = cls(d["kind"], d["text"], d["names"], d["label"], d["cname"], d["flags"], d["cid"],
                d["role"], d.get("extra"))
        s.depth = d["depth"]
        s.unit = d["unit"]
        s.oid = d.get("oid")
        return s

    def __repr__(self):
        return "<Stmt %s %r>" % (self.kind, self.src())


class Program:
    """Flat list of statements in source order with nesting metadata."""

    def __init__(self, stmts, std="f2003", meta=None):
        self.stmts = stmts
        self.std = std
        self.meta = meta or {}
        for i, s in enumerate(stmts):
            s.uid = i
            if s.oid is None:
                s.oid = i

    def uses_f2008(self):
        return any("f2008" in s.flags for s in self.stmts)

    def canonical(self, indent=True):
        """One statement per line, natural spacing."""
        lines = []
        for s in self.stmts:
            ind = "  " * s.depth if indent else ""
            lines.append(ind + s.src())
        return "\n".join(lines) + "\n"

    def kinds(self):
        return [s.kind for s in self.stmts]

    def to_json(self):
        return {"std": self.std, "meta": self.meta, "stmts": [s.to_json() for s in self.stmts]}

    @classmethod
    def from_json(cls, d):
        return cls([Stmt.from_json(x) for x in d["stmts"]], d["std"], d.get("meta"))
