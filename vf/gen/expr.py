"""Expression generator along the standard's grammar (R701-R723).

AST: ('leaf', text) | ('par', e) | ('un', op, e) | ('bin', op, l, r)
The text carries exactly the parentheses the grammar requires (a lower level
appearing where a higher one is needed is wrapped as an explicit 'par').
"""

REL_OPS = ["==", "/=", "<", "<=", ">", ">=", ".eq.", ".ne.", ".lt.", ".le.", ".gt.", ".ge."]
DEF_UN = [".neg.", ".Inv."]
DEF_BIN = [".dot.", ".X.", ".cross."]

HOSTILE_STRINGS = [
    "'p+q'", '"u**v"', "'(a+b)'", "'it''s'", '"1.0e5"', "'a b'", '"say ""hi"""', "''",
    "'!not a comment'", "'a&b'", "'x;y'", '"don\'t"', "'.and.'", "' lead'", "'trail '",
    "'a//b'", "'%'", '"(/"', "'=>'", "'::'", "'1_8'", "'c & d'", '"&"', "'p & q & r'",
]
PLAIN_STRINGS = ["'abc'", '"xyz"', "'Hello World'", "'A'", '"MiXed"']


def text_of(e, sp=" "):
    k = e[0]
    if k == "leaf":
        return e[1]
    if k == "par":
        return "(" + text_of(e[1], sp) + ")"
    if k == "un":
        # a unary operator directly after another operator needs a blank only
        # for readability; dotted operators need none
        return e[1] + sp + text_of(e[2], sp)
    return text_of(e[2], sp) + sp + e[1] + sp + text_of(e[3], sp)


def paren_of(e):
    """Fully parenthesised canonical form of the expected grouping."""
    k = e[0]
    if k == "leaf":
        return e[1].replace(" ", "").lower()
    if k == "par":
        return "p[" + paren_of(e[1]) + "]"
    if k == "un":
        return "(" + e[1].lower() + paren_of(e[2]) + ")"
    return "(" + paren_of(e[2]) + e[1].lower() + paren_of(e[3]) + ")"


def ops_of(e, out=None):
    if out is None:
        out = []
    k = e[0]
    if k == "par":
        ops_of(e[1], out)
    elif k == "un":
        out.append(e[1].lower())
        ops_of(e[2], out)
    elif k == "bin":
        ops_of(e[2], out)
        out.append(e[1].lower())
        ops_of(e[3], out)
    return out


def count_ops(e):
    return len(ops_of(e))


def is_dotted(op):
    return op.startswith(".")


def has_defbin_with_dotted_right(e):
    """Predicate of the known C03 finding: a defined binary operator with a
    dotted token (operator or logical literal) to its right at the same
    parenthesis level."""
    flat = []
    inner = []

    def flatten(x):
        k = x[0]
        if k == "leaf":
            flat.append(("leaf", x[1]))
        elif k == "par":
            flat.append(("leaf", "()"))
            inner.append(x[1])
        elif k == "un":
            flat.append(("op", x[1]))
            flatten(x[2])
        else:
            flatten(x[2])
            flat.append(("op", x[1]))
            flatten(x[3])

    flatten(e)
    defs = {d.lower() for d in DEF_BIN}
    for i, (k, t) in enumerate(flat):
        if k == "op" and t.lower() in defs:
            for k2, t2 in flat[i + 1:]:
                if k2 == "op" and is_dotted(t2):
                    return True
                if k2 == "leaf" and t2.lower().startswith((".true.", ".false.")):
                    return True
    return any(has_defbin_with_dotted_right(x) for x in inner)


def text_has_defbin_dotted_right(text):
    """Textual form of the same predicate, also looking inside argument lists
    and constructors: a defined binary operator followed, before its
    parenthesis level closes or a comma at that level, by a dotted token."""
    from ..lexer import lex

    toks = lex(text, comments=False)
    defs = {d.lower() for d in DEF_BIN}
    for i, (t, c) in enumerate(toks):
        if c == "O" and t.lower() in defs:
            depth = 0
            for t2, c2 in toks[i + 1:]:
                if c2 == "P" and t2 in ("(", "[", "(/"):
                    depth += 1
                elif c2 == "P" and t2 in (")", "]", "/)"):
                    depth -= 1
                    if depth < 0:
                        break
                elif c2 == "P" and t2 == "," and depth == 0:
                    break
                elif c2 == "O" and depth == 0:
                    return True
    return False


class ExprGen:
    def __init__(self, rng, env, hostile=True, defined_ops=True, case_ops=True):
        self.r = rng
        self.env = env
        self.hostile = hostile
        self.defined_ops = defined_ops
        self.case_ops = case_ops

    # ------------------------------------------------------------------ leaves
    def _case(self, op):
        if not self.case_ops or not op.startswith("."):
            return op
        c = self.r.random()
        if c < 0.6:
            return op
        if c < 0.85:
            return op.upper()
        return op.capitalize() if False else op[0] + op[1:].title()

    def int_lit(self):
        r = self.r
        c = r.random()
        if c < 0.7:
            return str(r.choice([0, 1, 2, 3, 5, 7, 10, 42, 100, 2048]))
        if c < 0.9:
            return "%d_%s" % (r.randint(1, 99), r.choice(["4", "8", self.env.kindname()]))
        return str(r.randint(0, 99999))

    def real_lit(self):
        r = self.r
        c = r.random()
        if c < 0.3:
            return r.choice(["1.0", "2.5", "0.5", "3.14159", "10.", ".5", ".25"])
        if c < 0.75:
            m = r.choice(["1.0", "2.5", "1.", ".5", "6.02", "1", "3"])
            e = r.choice(["e", "E", "d", "D"])
            s = r.choice(["", "+", "-"])
            x = r.choice(["0", "3", "10", "05"])
            lit = m + e + s + x
            if e in "eE" and r.random() < 0.3:
                lit += "_" + r.choice(["8", self.env.kindname()])
            return lit
        return r.choice(["1.0", "0.5", "2."]) + "_" + r.choice(["4", "8", self.env.kindname()])

    def logical_lit(self):
        r = self.r
        t = r.choice([".true.", ".false.", ".TRUE.", ".False."])
        if r.random() < 0.15:
            t += "_" + r.choice(["4", self.env.kindname()])
        return t

    def char_lit(self):
        r = self.r
        if self.hostile and r.random() < 0.6:
            s = r.choice(HOSTILE_STRINGS)
        else:
            s = r.choice(PLAIN_STRINGS)
        if r.random() < 0.07:
            s = r.choice(["1_", self.env.kindname() + "_"]) + s
        return s

    def literal(self):
        c = self.r.random()
        if c < 0.4:
            return self.int_lit()
        if c < 0.7:
            return self.real_lit()
        if c < 0.8:
            return self.logical_lit()
        if c < 0.95:
            return self.char_lit()
        return "(%s, %s%s)" % (self.real_lit(), self.r.choice(["", "-", "+"]), self.real_lit())

    def simple_arg(self, d):
        """A small expression used inside argument lists."""
        r = self.r
        if d <= 0 or r.random() < 0.5:
            c = r.random()
            if c < 0.5:
                return self.env.scalar()
            if c < 0.8:
                return self.int_lit()
            return r.choice(["-", "+"]) + self.env.scalar()
        return text_of(self.level2(min(d, 2)))

    def int_leaf(self, d):
        r = self.r
        c = r.random()
        if d <= 0 or c < 0.75:
            if c < 0.4:
                return self.env.scalar()
            if c < 0.7:
                return self.int_lit()
            return self.env.scalar()
        if c < 0.85:
            return "%s(%s)" % (self.env.array(), self.iexpr(d - 1))
        if c < 0.93:
            return "%s(%s)" % (self.env.function(), self.iexpr(d - 1))
        return r.choice(["size(%s)", "int(%s)", "abs(%s)", "len(%s)"]) % self.env.scalar()

    def iexpr(self, d=1):
        """Integer-valued expression (where the standard requires one)."""
        r = self.r
        if d <= 0 or r.random() < 0.45:
            t = self.int_leaf(d)
            if r.random() < 0.12:
                t = r.choice("+-") + t
            return t
        c = r.random()
        if c < 0.7:
            return "%s %s %s" % (self.iexpr(d - 1) if r.random() < 0.5 else self.int_leaf(d - 1), r.choice("+-"), self.iterm(d - 1))
        if c < 0.9:
            return self.iterm(d)
        return "(%s)" % self.iexpr(d - 1)

    def iterm(self, d):
        r = self.r
        if d <= 0 or r.random() < 0.5:
            return self.int_leaf(d)
        a = self.int_leaf(d - 1)
        b = self.int_leaf(d - 1) if r.random() < 0.7 else "(%s)" % self.iexpr(d - 1)
        op = r.choice(["*", "/", "*", "**"])
        return "%s %s %s" % (a, op, b)

    def subscript(self, d):
        r = self.r
        c = r.random()
        if c < 0.6:
            return self.iexpr(d)
        if c < 0.7:
            return ":"
        lo = self.iexpr(0) if r.random() < 0.7 else ""
        hi = self.iexpr(0) if r.random() < 0.7 else ""
        s = lo + ":" + hi
        if r.random() < 0.3:
            s += ":" + self.iexpr(r.choice([0, 0, 2]))
        return s

    def array_ref(self, d, sections=True):
        n = self.r.choice([1, 1, 2, 3])
        subs = [self.subscript(d - 1) if sections else self.iexpr(d - 1) for _ in range(n)]
        return "%s(%s)" % (self.env.array(), ", ".join(subs))

    def call(self, d):
        r = self.r
        n = r.choice([0, 1, 1, 2, 3])
        args = [self.simple_arg(d - 1) for _ in range(n)]
        if n and r.random() < 0.25:
            args[-1] = "%s = %s" % (self.env.keyword(), args[-1])
        return "%s(%s)" % (self.env.function(), ", ".join(args))

    def intrinsic_call(self, d):
        r = self.r
        name, lo, hi = r.choice(self.env.INTRINSICS)
        n = r.randint(lo, hi)
        args = [self.simple_arg(d - 1) for _ in range(n)]
        name = name if r.random() < 0.7 else name.upper()
        return "%s(%s)" % (name, ", ".join(args))

    def component(self, d):
        r = self.r
        parts = [self.env.structvar()]
        for _ in range(r.choice([1, 1, 2])):
            c = self.env.compname()
            if r.random() < 0.3:
                c += "(%s)" % self.iexpr(d - 1)
            parts.append(c)
        return r.choice(["%", " % ", "%"]).join(parts)

    def array_constructor(self, d):
        r = self.r
        items = [self.simple_arg(d - 1) for _ in range(r.randint(1, 3))]
        if r.random() < 0.25:
            v = self.env.loopvar()
            items = ["(%s, %s = %s, %s%s)" % (items[0], v, self.int_lit().split("_")[0], self.iexpr(0),
                                              (", " + self.iexpr(0)) if r.random() < 0.3 else "")]
        body = ", ".join(items)
        if r.random() < 0.2:
            body = r.choice(["integer", "real", "real{+(KIND = +}{-(-}8)", "character(len = 3)"]) + " :: " + body
        return ("[%s]" % body) if r.random() < 0.6 else ("(/ %s /)" % body)

    def substring(self, d):
        r = self.r
        base = self.env.scalar() if r.random() < 0.5 else "%s(%s)" % (self.env.array(), self.iexpr(0))
        if r.random() < 0.25:
            # substring of a character literal constant (R609 parent-string may be a scalar-constant)
            base = self.char_lit()
        lo = self.iexpr(0) if r.random() < 0.7 else ""
        hi = self.iexpr(0) if r.random() < 0.7 else ""
        return "%s(%s:%s)" % (base, lo, hi)

    def leaf(self, d):
        r = self.r
        c = r.random()
        if c < 0.04:
            return ("leaf", self.substring(d))
        if c < 0.30:
            return ("leaf", self.env.scalar())
        if c < 0.52:
            return ("leaf", self.literal())
        if c < 0.64:
            return ("leaf", self.array_ref(d))
        if c < 0.74:
            return ("leaf", self.call(d))
        if c < 0.82:
            return ("leaf", self.intrinsic_call(d))
        if c < 0.92:
            return ("leaf", self.component(d))
        return ("leaf", self.array_constructor(d))

    # ----------------------------------------------------------------- grammar
    def primary(self, d):
        r = self.r
        memo = self.__dict__.setdefault("_memo", [])
        if memo and r.random() < 0.07:
            # deliberately repeated sub-expression, with or without extra parentheses
            e = r.choice(memo)
            c = r.random()
            if c < 0.4:
                return e
            if c < 0.8:
                return ("par", e) if e[0] != "par" else e[1] if e[1][0] in ("leaf", "par") else e
            return ("par", ("par", e[1])) if e[0] == "par" else ("par", e)
        if d <= 0 or r.random() < 0.55:
            e = self.leaf(d)
        else:
            e = ("par", self.expr(d - 1))
        if len(memo) > 6:
            memo.pop(0)
        if e[0] == "par" or ("'" in e[1] or '"' in e[1] or "(" in e[1]):
            memo.append(e)
        return e

    def level1(self, d):
        p = self.primary(d)
        if self.defined_ops and self.r.random() < 0.08:
            return ("un", self._case(self.r.choice(DEF_UN)), p)
        return p

    def mult_operand(self, d):
        l = self.level1(d)
        if d > 0 and self.r.random() < 0.25:
            return ("bin", "**", l, self.mult_operand(d - 1))
        return l

    def add_operand(self, d):
        if d > 0 and self.r.random() < 0.35:
            return ("bin", self.r.choice("*/"), self.add_operand(d - 1), self.mult_operand(d - 1))
        return self.mult_operand(d)

    def level2(self, d):
        if d > 0 and self.r.random() < 0.35:
            return ("bin", self.r.choice("+-"), self.level2(d - 1), self.add_operand(d - 1))
        if self.r.random() < 0.15:
            return ("un", self.r.choice("+-"), self.add_operand(d))
        return self.add_operand(d)

    def level3(self, d):
        if d > 0 and self.r.random() < 0.15:
            return ("bin", "//", self.level3(d - 1), self.level2(d - 1))
        return self.level2(d)

    def level4(self, d):
        if d > 0 and self.r.random() < 0.25:
            return ("bin", self._case(self.r.choice(REL_OPS)), self.level3(d - 1), self.level3(d - 1))
        return self.level3(d)

    def and_operand(self, d):
        if self.r.random() < 0.15:
            return ("un", self._case(".not."), self.level4(d))
        return self.level4(d)

    def or_operand(self, d):
        if d > 0 and self.r.random() < 0.25:
            return ("bin", self._case(".and."), self.or_operand(d - 1), self.and_operand(d - 1))
        return self.and_operand(d)

    def equiv_operand(self, d):
        if d > 0 and self.r.random() < 0.25:
            return ("bin", self._case(".or."), self.equiv_operand(d - 1), self.or_operand(d - 1))
        return self.or_operand(d)

    def level5(self, d):
        if d > 0 and self.r.random() < 0.2:
            return ("bin", self._case(self.r.choice([".eqv.", ".neqv."])), self.level5(d - 1),
                    self.equiv_operand(d - 1))
        return self.equiv_operand(d)

    def expr(self, d):
        if self.defined_ops and d > 0 and self.r.random() < 0.08:
            return ("bin", self._case(self.r.choice(DEF_BIN)), self.expr(d - 1), self.level5(d - 1))
        return self.level5(d)

    # -------------------------------------------------------- typed-ish helpers
    def numeric(self, d=2):
        return text_of(self.level2(d))

    def logical(self, d=2):
        e = self.level5(d)
        return text_of(e)

    def any(self, d=3):
        return text_of(self.expr(d))

    def any_ast(self, d=3):
        return self.expr(d)
