"""setup_cmd: quick self-test of the engines (nothing to build or install)."""
import sys
import random


def main():
    from . import fp, monitors, lexer, canon
    from .gen.program import generate
    from .common import parse_monitored, compare_program_tokens

    # lexer round trip
    toks = lexer.lex("10 x = f(a, 'it''s', 1.0e-3_wp) .and. .not. b(1:2) // \"q!\" ! c")
    assert [t for t, c in toks if c == "S"] == ["'it''s'", '"q!"'], toks
    assert toks[-1][1] == "C"
    # generator determinism
    a = generate(12345, "f2008").canonical()
    b = generate(12345, "f2008").canonical()
    assert a == b and len(a) > 20
    # monitors attach and observe
    with monitors.NewMonitor() as nm, monitors.ScopeMonitor() as sc:
        r = parse_monitored("module m\ncontains\nsubroutine s\nx = 1\nend subroutine\nend module\n", "f2003")
        assert r.tree is not None and not r.conservation, r.conservation
        assert nm.count > 10 and sc.events >= 4 and r.n_next > 3
    probs, n = canon.wellformed(r.tree, check_walk=False)
    assert not probs and n > 5
    print("selftest ok: fparser from %s" % fp.fparser.__file__)
    return 0


if __name__ == "__main__":
    sys.exit(main())
