"""C04 free-form layout does not change the parse."""
import random
import itertools

from .. import fp, layout
from ..common import payload_program, program_payload, digest, parse_monitored, free_reader
from ..canon import shape, ShapeOpts, first_diff
from ..lexer import lex, lex_spans, LexError
from .base import gen_program, viol, shrink_program

ID = "C04"
LEVEL = "exploration"
TIERS = {"quick": {"cases": 2600, "wall": 110, "min_nontrivial": 6000},
         "thorough": {"cases": 60000, "wall": 1800, "min_nontrivial": 50000}}
RULE = ("(a) exhaustive layout enumeration for 14 small statements (<=8 tokens; with label, construct name, character "
        "literals containing & ! and both quote kinds): every token boundary takes every break style in {none, '&', '&' + "
        "leading '&', '&' + trailing comment, '&' + comment line, '&' + blank line + leading '&', blanks around '&'} (all "
        "combinations when <= 2500, a fixed-seed sample otherwise) and every interior position of every literal is "
        "broken with and without leading '&'; (b) random layouts of whole generated programs (continuations at token "
        "boundaries, inside literals and inside names, keywords, numbers and operators ('&' ... '&' glued to the two halves "
        "of the token), comment/blank lines, trailing comments, indentation, ';' joins incl. lines starting with ';', "
        "case flips of keywords and names). Oracle: shape(tree(L(P))) == shape(tree(canonical(P))) with names case-folded, and the "
        "multiset of name spellings in the regenerated text equals that of L(P) (names keep their spelling). "
        "non-trivial = layout that differs from the canonical text; distinct by SHA-1 of layout text")
ASSUMPTIONS = ["a literal continued without a leading '&' resumes in column 1 and its remainder does not start with & ! or blank",
               "no lexical token other than a character literal is split", "source form is stated to the reader as free"]
ENUM_CASES = {"quick": 600, "thorough": 4000}
DECIDING_MONITORS = ("layouts_compared",)
EXHAUSTIVE = {"quick": True, "thorough": True, "note": "exhaustive only for sub-space (a) per small statement where the product is <= 2500; (b) is sampled"}

# (label, construct name, statement text, closer lines)
SMALL = [
    (None, None, "x = a + b", ""),
    ("10", None, "x = f(a, 'p&q')", ""),
    (None, None, "call s('it''s', \"a!b\")", ""),
    ("20", "nm", "do i = 1, n", "end do nm\n"),
    (None, None, "if (a .gt. 1.0e-3) x = 1", ""),
    (None, None, "print *, 'ab' // 'c d'", ""),
    (None, None, "write (*, '(a)') x", ""),
    (None, "blk", "if (x > 0) then", "end if blk\n"),
    ("30", None, "continue", ""),
    (None, None, "y = \"say \"\"hi\"\"\" // '&'", ""),
    (None, None, "integer, parameter :: k = 3", "@spec"),
    (None, None, "go to 30", "30 continue\n"),
    (None, "sel", "select case (i)", "end select sel\n"),
    (None, None, "z = 'a;b' // '!'", ""),
]
# a leading '<' means: no blank between the preceding token and the '&'
BREAKS = ["", "&\n", "&\n&", "& ! c\n  &", "&\n! full\n", "&\n\n   &", "  &  \n   ", "<&\n"]


def small_text(k, choice, strsplit=None, semi=None):
    """semi: None | 'pre' (another statement and ';' in front) | 'post' | 'both'"""
    label, name, text, closer = SMALL[k]
    spans = lex_spans(text)
    toks = [t for t, c, a, b in spans]
    pre = []
    if label:
        pre.append(label)
    if name:
        pre += [name, ":"]
    alltoks = pre + toks
    out = ""
    for i, t in enumerate(alltoks):
        if strsplit and strsplit[0] == i:
            p, lead = strsplit[1], strsplit[2]
            t = t[:p] + "&\n" + ("  &" if lead else "") + t[p:]
        out += t
        if i < len(alltoks) - 1:
            br = choice[i] if choice else ""
            if br.startswith("<"):
                a, b = t[-1:], alltoks[i + 1][:1]
                word = lambda ch: ch.isalnum() or ch in "_.'\""  # noqa: E731
                if word(a) and word(b):
                    out += br[1:-1] + "\n "      # the next line supplies the separating blank
                else:
                    out += br[1:]
            else:
                out += (" " + br) if br else " "
    spec = closer == "@spec"
    other = "integer :: vf_%s" if spec else "vf_%s = 0"
    if semi in ("pre", "both"):
        out = (other % "p") + " ; " + out
    if semi in ("post", "both"):
        out = out + "; " + (other % "q")
    if semi == "lead":
        # a line may start with ';' (F2008 lifted the restriction): nothing stands in front of it
        out = "; " + out + "\n  ; ; " + (other % "q") + " ; " + (other % "r")
    if semi == "empty":
        # consecutive ';' (with or without blanks between them) count as one
        out = (other % "p") + " ; ; " + out + ";; " + (other % "q") + " ;"
    if semi == "reflead":
        out = out + "\n" + (other % "q") + "\n" + (other % "r")
    if semi == "ref":
        out = (other % "p") + "\n" + out + "\n" + (other % "q")
    elif semi == "refpre":
        out = (other % "p") + "\n" + out
    elif semi == "refpost":
        out = out + "\n" + (other % "q")
    body = out + "\n" + ("" if spec else closer)
    return "subroutine vf_s(vf_a)\n" + body + "end subroutine vf_s\n", len(alltoks)


def small_layouts(k):
    """Deterministic list of (choice, strsplit) for small statement k."""
    _, ntok = small_text(k, None)
    n = ntok - 1
    out = []
    if len(BREAKS) ** n <= 2500:
        for c in itertools.product(range(len(BREAKS)), repeat=n):
            out.append((c, None))
    else:
        r = random.Random(1000 + k)
        seen = set()
        # every single break everywhere, then random combinations
        for i in range(n):
            for b in range(1, len(BREAKS)):
                c = tuple(b if j == i else 0 for j in range(n))
                seen.add(c)
                out.append((c, None))
        pool = [0, 0, 0] + list(range(1, len(BREAKS)))
        target = min(2500, len(BREAKS) ** n)
        while len(out) < target:
            c = tuple(r.choice(pool) for _ in range(n))
            if c not in seen:
                seen.add(c)
                out.append((c, None))
    label, name, text, closer = SMALL[k]
    pre = (1 if label else 0) + (2 if name else 0)
    for i, (t, c, a, b) in enumerate(lex_spans(text)):
        if c == "S":
            for p in range(1, len(t)):
                for lead in (True, False):
                    if not lead and t[p] in "&! ":
                        continue
                    out.append((None, (pre + i, p, lead)))
    # ';' joins: the statement (with its label / construct name) before, after and between other statements,
    # alone and combined with every single break
    for semi in ("pre", "post", "both", "empty", "lead"):
        out.append((tuple([0] * n), None, semi))
        for i in range(n):
            for b in (1, 2, 3, 7):
                out.append((tuple(b if j == i else 0 for j in range(n)), None, semi))
    return out


_SMALL_CACHE = {}


def all_small():
    if not _SMALL_CACHE:
        items = []
        for k in range(len(SMALL)):
            for lay in small_layouts(k):
                c, ss = lay[0], lay[1]
                items.append((k, c, ss, lay[2] if len(lay) > 2 else None))
        _SMALL_CACHE["items"] = items
    return _SMALL_CACHE["items"]


FOLD = ShapeOpts(fold_names=True)
FOLD_DROP = ShapeOpts(fold_all=True, drop=("Comment",), prune_empty=True)
FOLD_PRUNE = ShapeOpts(fold_all=True, prune_empty=True)

PROGRAM_LAYOUTS = [
    dict(comments=False, p_cont=0.35, p_semi=0.0, p_case=0.4, indent="random", p_blank=0.05, p_str_split=0.1, max_breaks=4, p_tok_split=0.03),
    dict(comments=True, p_cont=0.3, p_semi=0.0, p_case=0.0, p_name_case=0.0, indent="random", p_str_split=0.1),
    dict(comments=False, p_cont=0.15, p_semi=0.25, p_case=0.3, p_name_case=0.3, indent="random", p_trailing_semi=0.05),
    dict(comments=True, p_cont=0.5, p_semi=0.1, p_case=0.5, p_name_case=0.2, indent="depth", p_lead_amp=0.2, p_str_split=0.2, max_breaks=5, p_tok_split=0.03),
]


def make_payload(rng, idx, tier):
    n_small_cases = 600 if tier == "quick" else 4000
    if idx < n_small_cases:
        return {"mode": "small", "slice": [idx, n_small_cases]}
    P, meta = gen_program(rng, tier, size=rng.choice([0.5, 1.0, 1.0]))
    meta["layout_seed"] = rng.getrandbits(32)
    meta["li"] = rng.randrange(len(PROGRAM_LAYOUTS))
    meta["mode"] = "program"
    return program_payload(P, **meta)


def name_spellings(text, names_lower):
    out = {}
    for ln in text.split("\n"):
        try:
            toks = lex(ln)
        except LexError:
            continue
        for k, (t, c) in enumerate(toks):
            if c == "W" and t.lower() in names_lower:
                if len(t) == 1 and t.lower() in "boz" and k + 1 < len(toks) and toks[k + 1][1] == "S":
                    continue    # prefix of a BOZ literal constant, not a name
                out[t] = out.get(t, 0) + 1
    return out


def parse_shape(text, std, ic=True):
    r = parse_monitored(text, std, ignore_comments=ic, conserve=False)
    if r.error is not None:
        return None, str(r.error)[:160].replace("\n", " | "), None
    return shape(r.tree, FOLD_PRUNE if ic else FOLD_DROP), None, r.tree


def classify_layout(text):
    """Mechanism key for layouts that are known to defeat the reader (none at present)."""
    return None


def check(payload):
    viols, digs = [], []
    mons = {"layouts_compared": 0, "small_layouts": 0}
    tally = {"mode": [payload["mode"]]}
    seen = set()
    n_eval = 0
    sample = None
    if payload["mode"] == "one":
        ref, err, _ = parse_shape(payload["ref_text"], payload["std"], payload.get("ic", True))
        got, err2, _ = parse_shape(payload["text"], payload["std"], payload.get("ic", True))
        if got is None:
            viols.append(viol(payload["key"], "layout rejected: %s" % err2))
        elif got != ref:
            viols.append(viol(payload["key"], "tree differs: %s" % first_diff(ref, got)))
        return {"violations": viols, "digests": [], "monitors": {"layouts_compared": 1}, "tally": tally}
    if payload["mode"] == "small":
        items = all_small()
        i0, n = payload["slice"]
        refs = {}
        for j in range(i0, len(items), n):
            k0, c, ss, semi = items[j]
            k = (k0, semi)
            if k not in refs:
                rt, _ = small_text(k0, None, None, {None: None, "pre": "refpre", "post": "refpost", "both": "ref", "empty": "ref", "lead": "reflead"}[semi])
                refs[k] = (parse_shape(rt, "f2003")[0], rt)
            choice = [BREAKS[x] for x in c] if c is not None else None
            text, _ = small_text(k0, choice, ss, semi)
            k_small = k0
            got, err, _ = parse_shape(text, "f2003")
            mons["layouts_compared"] += 1
            mons["small_layouts"] += 1
            n_eval += 1
            if sample is None:
                sample = {"statement": SMALL[k_small][2], "layout": text}
            ok = got is not None and got == refs[k][0]
            if ok:
                if text != refs[k][1]:
                    digs.append(digest(text))
                continue
            key = _small_key(k_small, c, ss, got is None)
            if semi:
                key = "semicolon-join:" + key
            if key not in seen:
                seen.add(key)
                viols.append(viol(key, "statement %r laid out as %r: %s" % (
                    SMALL[k_small][2], text, ("rejected: %s" % err) if got is None else ("tree differs: %s" % first_diff(refs[k][0], got))),
                    payload={"mode": "one", "text": text, "ref_text": refs[k][1], "std": "f2003", "key": key},
                    shrunk={"source": text}))
        return {"violations": viols, "digests": digs, "monitors": mons, "tally": tally, "evaluations": max(1, n_eval), "sample": sample}
    # ---- whole programs
    P = payload_program(payload)
    std = payload["std"]
    lo = PROGRAM_LAYOUTS[payload["li"]]
    # comment lines are interleaved in the layout but dropped by the reader: with comments kept
    # the tree legitimately gains nodes and block boundaries (C11's subject)
    ic = True
    canon = P.canonical()
    ref, err, _ = parse_shape(canon, std, True)
    if ref is None:
        return {"violations": [], "digests": [], "monitors": mons, "tally": tally}   # C01's business

    def one(Q):
        text, info = layout.render(Q, random.Random(payload["layout_seed"]), lo)
        r0, e0, _ = parse_shape(Q.canonical(), std, True)
        if r0 is None:
            return None, text
        got, e1, tree = parse_shape(text, std, ic)
        if got is None:
            key = layout.known_rejection_key(text) or "layout-rejected"
            return viol(key, "(%s, layout %d, ignore_comments=%s) valid layout rejected: %s" % (std, payload["li"], ic, e1)), text
        if got != r0:
            d = first_diff(r0, got)
            key = classify_layout(text) or "tree-differs"
            return viol(key, "(%s, layout %d, ignore_comments=%s) %s" % (std, payload["li"], ic, d)), text
        # names keep their spelling: statement by statement (the regenerated text has
        # one statement per line, in the same order, once the shapes agree)
        if ic:
            out_lines = [l for l in str(tree).split("\n") if l.strip()]
            if len(out_lines) == len(Q.stmts):
                for i, st in enumerate(Q.stmts):
                    if st.kind in ("implicit", "format"):
                        continue
                    nl = {x.lower() for x in st.exact_names()}
                    a_sp = name_spellings(info["stmt_texts"][i], nl)
                    b_sp = name_spellings(out_lines[i], nl)
                    if a_sp != b_sp:
                        diff = sorted(set(a_sp.items()) ^ set(b_sp.items()))[:4]
                        return viol("name-spelling-changed", "(%s, layout %d) statement %r regenerated as %r: spellings differ %s" % (
                            std, payload["li"], info["stmt_texts"][i], out_lines[i].strip(), diff)), text
        return None, text

    mons["layouts_compared"] += 1
    v, text = one(P)
    if v is None:
        if text != canon:
            digs.append(digest(text, std, ic))
    else:
        key = v["key"]

        def still(Q):
            w, _ = one(Q)
            return w is not None and w["key"] == key

        Q = shrink_program(P, still, budget=100)
        w, qtext = one(Q)
        v["shrunk"] = {"source": qtext, "detail": w["detail"] if w else None}
        v["payload"] = dict(payload, program=Q.to_json())
        viols.append(v)
    return {"violations": viols, "digests": digs, "monitors": mons, "tally": tally,
            "sample": {"layout": text[:700]}}


def _small_key(k, c, ss, rejected):
    label, name, text, closer = SMALL[k]
    if ss is not None:
        return "literal-break:%s" % ("lead-amp" if ss[2] else "no-lead-amp")
    pre = (1 if label else 0)
    if name and c is not None:
        # breaks between label/name/colon
        if c[pre] != 0:
            return "construct-name-continued"
    if label and c is not None and c[0] != 0:
        return "break-after-label"
    return "small-layout-%s" % ("rejected" if rejected else "differs")
