"""C17 the Fortran 2008 parser accepts everything the 2003 parser accepts."""
import re

from ..common import parse_monitored, payload_program, program_payload, digest
from ..lexer import fold_squash, lex
from ..gen import intrinsics
from .base import gen_program, viol, shrink_program, nontrivial

ID = "C17"
LEVEL = "exploration"
TIERS = {"quick": {"cases": 2400, "wall": 90, "min_nontrivial": 300},
         "thorough": {"cases": 60000, "wall": 1500, "min_nontrivial": 5000}}
RULE = ("(a) generator in F2003 mode -> program P: parse03(P) and parse08(P) must both succeed and print the same text "
        "compared case-insensitively outside character literals, and identically unless P references an F2008-only "
        "intrinsic name (erf, gamma, shiftl, shiftr, shifta are spliced in as references in a third of the cases); "
        "(b) P plus exactly one F2008-only construct Q (one of 21 kinds): parse03(Q) must raise, parse08(Q) must "
        "succeed; non-trivial = >=6 statements and >=3 kinds; distinct by SHA-1 of source")
ASSUMPTIONS = ["the generator's f2003 mode emits no F2008 feature", "the spliced F2008 constructs are F2008-only by the standard"]
DECIDING_MONITORS = ("pairs_compared", "f2008_only_checked")

F08_SNIPPETS = {
    "submodule": ("unit", "submodule (parent_m) child_m\nend submodule child_m\n"),
    "codimension_attr": ("spec", "integer, codimension[*] :: co_vf"),
    "codimension_stmt": ("spec", "real, dimension(3), codimension[2, *] :: co_vf2"),
    "contiguous": ("spec", "real, contiguous, pointer :: pc_vf(:)"),
    "block": ("exec", "block\n integer :: blk_vf\n blk_vf = 1\nend block"),
    "critical": ("exec", "critical\n crit_vf = 1\nend critical"),
    "do_concurrent": ("exec", "do concurrent (i_vf = 1:3)\n a_vf(i_vf) = 0\nend do"),
    "error_stop": ("exec", "error stop 2"),
    "allocate_mold": ("exec", "allocate (al_vf, mold = mo_vf)"),
    "open_newunit": ("exec", "open (newunit = nu_vf, file = 'f.dat')"),
    "unlimited_format": ("exec", "4711 format (*(i5, 1x))"),
    "if_error_stop": ("exec", "if (l_vf) error stop"),
    "procedure_colons": ("spec", "interface gen_vf\n procedure :: p1_vf, p2_vf\nend interface gen_vf"),
    "named_block": ("exec", "bb_vf: block\nend block bb_vf"),
    "component_contiguous": ("spec", "type vf_t\n real, contiguous, pointer :: cc_vf(:)\nend type vf_t"),
    "component_codimension": ("spec", "type vf_u\n real, allocatable, codimension[:] :: cd_vf\nend type vf_u"),
    "label_do_concurrent": ("exec", "do 4712 concurrent (i_vf = 1:3)\n4712 continue"),
    "error_stop_expr": ("exec", "error stop e_vf"),
    "proc_pointer_init_target": ("spec", "procedure(), pointer :: pp_vf => tgt_vf"),
    "module_procedure_colons": ("spec", "interface gm_vf\n module procedure :: mp_vf\nend interface"),
    "do_concurrent_mask": ("exec", "do concurrent (i_vf = 1:3, j_vf = 1:2, i_vf /= j_vf)\nend do"),
}
F08_INTRINSICS = ["erf(%s)", "gamma(%s)", "shiftl(%s, 2)", "shiftr(%s, 1)", "shifta(%s, 3)"]


def make_payload(rng, idx, tier):
    P, meta = gen_program(rng, tier, std="f2003")
    mode = rng.choice(["subset", "subset", "f08only"])
    meta["mode"] = mode
    if mode == "f08only":
        meta["snippet"] = rng.choice(sorted(F08_SNIPPETS))
        meta["pos_seed"] = rng.getrandbits(32)
    else:
        if rng.random() < 0.35:
            meta["intrinsic"] = rng.choice(F08_INTRINSICS)
            meta["intrinsic_case"] = rng.choice(["lower", "upper", "mixed"])
    return program_payload(P, **meta)


def build_source(P, payload):
    import random

    lines = P.canonical().rstrip("\n").split("\n")
    if payload["mode"] == "f08only":
        kind, text = F08_SNIPPETS[payload["snippet"]]
        rng = random.Random(payload["pos_seed"])
        if kind == "unit":
            # in front: a main program without PROGRAM statement swallows what follows it
            # (C02's finding), which would hide the construct from both parsers
            return text + "\n".join(lines) + "\n"
        # positions: spec -> right after a unit opener's USE/IMPLICIT block is risky; put directly before the
        # first executable/END of a non-module unit (spec) or before a unit END (exec)
        cands = []
        for i, s in enumerate(P.stmts):
            if "unit_close" in s.flags and s.kind in ("end_program", "end_subroutine", "end_function"):
                # find matching opener
                j = max(k for k in range(i) if P.stmts[k].cid == s.cid and P.stmts[k].role == "open") if any(
                    P.stmts[k].cid == s.cid and P.stmts[k].role == "open" for k in range(i)) else None
                if j is None:
                    continue
                if any("in_interface" in P.stmts[k].flags for k in (j,)):
                    continue
                cands.append((j, i))
        cands = [c for c in cands if not _in_interface(P, c[0])]
        if not cands:
            return None
        j, i = rng.choice(cands)
        if kind == "exec":
            # before CONTAINS of this unit if present, else before END
            k = i
            for q in range(j + 1, i):
                if P.stmts[q].kind == "contains" and P.stmts[q].depth == P.stmts[j].depth + 1:
                    k = q
                    break
            at = k
        else:
            at = _spec_insert_point(P, j, i)
        ind = "  " * (P.stmts[j].depth + 1)
        new = lines[:at] + [ind + l for l in text.split("\n")] + lines[at:]
        return "\n".join(new) + "\n"
    src = "\n".join(lines) + "\n"
    return src


def _in_interface(P, j):
    d = P.stmts[j].depth
    for k in range(j - 1, -1, -1):
        s = P.stmts[k]
        if s.depth < d and s.role == "open":
            if s.kind == "interface":
                return True
            d = s.depth
    return False


_SPEC_FIRST = ("use", "import", "implicit")


def _spec_insert_point(P, j, i):
    """index of the first statement after the USE/IMPORT/IMPLICIT prefix of unit j."""
    k = j + 1
    while k < i and P.stmts[k].kind in _SPEC_FIRST and P.stmts[k].depth == P.stmts[j].depth + 1:
        k += 1
    return k


def splice_intrinsic(src, payload):
    """Append 'vf_r = <f2008 intrinsic>(vf_x)' before the first unit END of an executable unit."""
    spec = payload["intrinsic"]
    call = spec % "vf_x"
    name = call.split("(")[0]
    c = payload.get("intrinsic_case")
    if c == "upper":
        call = name.upper() + call[len(name):]
    elif c == "mixed":
        call = name.capitalize() + call[len(name):]
    return call


def check(payload):
    P = payload_program(payload)
    viols, digs = [], []
    mons = {"pairs_compared": 0, "f2008_only_checked": 0}
    tally = {"stmt_kinds": P.kinds(), "mode": [payload["mode"]]}
    src = build_source(P, payload)
    if src is None:
        return {"violations": [], "digests": [], "tally": tally, "monitors": mons}
    if payload["mode"] == "f08only":
        tally["snippet"] = [payload["snippet"]]
        r08 = parse_monitored(src, "f2008", conserve=False)
        base03 = parse_monitored(P.canonical(), "f2003", conserve=False)
        if base03.error is not None:
            return {"violations": [], "digests": [], "tally": tally, "monitors": mons}
        mons["f2008_only_checked"] += 1
        if r08.error is not None:
            viols.append(viol("f2008-rejects-f2008-construct:" + payload["snippet"], "parse08 rejected: %s" % str(r08.error)[:200]))
        r03 = parse_monitored(src, "f2003", conserve=False)
        if r03.error is None:
            viols.append(viol("f2003-accepts-f2008-construct:" + payload["snippet"],
                              "the F2003 parser accepted a source containing the F2008-only construct %r" % F08_SNIPPETS[payload["snippet"]][1]))
        if not viols and nontrivial(P):
            digs.append(digest(src))
        return {"violations": viols, "digests": digs, "tally": tally, "monitors": mons,
                "sample": {"mode": "f08only", "snippet": payload["snippet"], "source": src[:800]}}
    uses08 = False
    if payload.get("intrinsic"):
        call = splice_intrinsic(src, payload)
        tally["intrinsic"] = [call.split("(")[0].lower()]
        # put it into a trailing external subroutine so that it is valid anywhere
        src = src + "subroutine vf_tail(vf_x, vf_r)\n  vf_r = %s + 1\nend subroutine vf_tail\n" % call
        uses08 = True

    def compare(text):
        r03 = parse_monitored(text, "f2003", conserve=False)
        if r03.error is not None:
            return None   # not accepted by 2003: outside the premise (C01 reports rejections)
        r08 = parse_monitored(text, "f2008", conserve=False)
        if r08.error is not None:
            return viol("f2008-rejects-f2003-source", "accepted by the F2003 parser, rejected by F2008: %s" % str(r08.error)[:200].replace("\n", " | "))
        s3, s8 = str(r03.tree), str(r08.tree)
        mons["pairs_compared"] += 1
        if s3 == s8:
            return False
        a, b = s3.split("\n"), s8.split("\n")
        for k, (x, y) in enumerate(zip(a, b)):
            if x != y:
                break
        else:
            k = min(len(a), len(b))
        x = a[k] if k < len(a) else ""
        y = b[k] if k < len(b) else ""
        if len(a) == len(b) and all(fold_squash(p) == fold_squash(q) for p, q in zip(a, b)):
            if uses08:
                # permitted: only the case of the f2008 intrinsic names may differ
                for p, q in zip(a, b):
                    if p != q:
                        tp, tq = lex(p), lex(q)
                        for (u, cu), (w, cw) in zip(tp, tq):
                            if u != w and u.lower() not in intrinsics.F2008_ONLY:
                                return viol("f2008-text-differs-in-case", "line %d: %r vs %r (token %r)" % (k + 1, p, q, u))
                return False
            return viol("f2008-text-differs-in-case", "line %d: %r vs %r although no F2008-only intrinsic is referenced" % (k + 1, x, y))
        return viol("f2008-text-differs", "line %d: f2003 %r vs f2008 %r" % (k + 1, x, y))

    v = compare(src)
    if v:
        if not payload.get("intrinsic"):
            key = v["key"]

            def still(Q):
                w = compare(Q.canonical())
                return bool(w) and w["key"] == key

            Q = shrink_program(P, still, budget=80)
            v["shrunk"] = {"source": Q.canonical()}
        viols.append(v)
    elif v is False and nontrivial(P):
        digs.append(digest(src))
    return {"violations": viols, "digests": digs, "tally": tally, "monitors": mons,
            "sample": {"mode": "subset", "source": src[:800]}}
