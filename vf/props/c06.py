"""C06 parsing ends in a tree or a FortranSyntaxError, for any input."""
import os
import re
import random
import shutil
import tempfile

from .. import fp, monitors, mutate, layout, fixedform
from ..common import digest, free_reader
from ..gen.program import generate
from .base import viol

ID = "C06"
LEVEL = "exploration"
TIERS = {"quick": {"cases": 1400, "wall": 100, "min_nontrivial": 5000},
         "thorough": {"cases": 40000, "wall": 1800, "min_nontrivial": 200000}}
STEP_BUDGET = 3_000_000
RULE = ("inputs: (a) 1-3 token/character/line mutations (delete, duplicate, swap, replace by punctuation or keyword; char "
        "overwrite/insert/delete; line delete/duplicate/move/join) of generated valid programs in canonical and random "
        "free-form layout; (b) unstructured random lines over the Fortran character set mixed with keyword soup; "
        "and fixed-form rendering; (a') systematically, for two statements of a small valid program: every prefix "
        "truncation at a token boundary, every single-token deletion, every single-token duplication and every repetition of "
        "a separator with its right neighbour (lo:hi -> lo:hi:hi), the two statements picked by kind; (c) both standards x ignore_comments x process_directives, format auto-detected or stated; (d) byte level: "
        "valid programs with random bytes 0x80-0xFF, truncated UTF-8 sequences and NULs spliced in, read through "
        "FortranFileReader. Oracle at the API boundary: create(std)(reader) then str(tree) either returns or raises "
        "FortranSyntaxError; anything else (NoMatchError, InternalError, AssertionError, IndexError, SystemExit, ...) is "
        "a violation keyed (exception type, innermost fparser function); logical time bound = 3e6 rule-constructor "
        "calls (M-NEW); wall watchdog only yields 'inconclusive'. non-trivial = input that differs from every valid "
        "parent; distinct by SHA-1 of (text, config)")
ASSUMPTIONS = ["step budget of 3e6 Base.__new__ calls is two orders of magnitude above any valid program of the same size; "
               "inputs with more than 4 labelled DO statements are exempt from the step bound (C20's known finding)"]
DECIDING_MONITORS = ("inputs_run",)
CASE_WALL = 600

_BASES = {}


def base_program(seed, std):
    key = (seed, std)
    if key not in _BASES:
        if len(_BASES) > 200:
            _BASES.clear()
        _BASES[key] = generate(seed, std, size=0.6, max_units=2)
    return _BASES[key]


def make_payload(rng, idx, tier):
    if idx % 4 == 3:
        # every truncation / single-token deletion / duplication of two statements of a small valid program
        return {"mode": "systematic", "seed": rng.getrandbits(48), "nstmts": 2}
    return {"mode": "batch", "seed": rng.getrandbits(48), "n": 40}


_LAST_READER_ERROR = [None]


def _watch_reader_error():
    """M-ERR: remember the message handed to reader.error() (the call that ends in sys.exit), so that two different
    reasons for terminating the process in the same function are two mechanisms"""
    cls = fp.FortranStringReader.__mro__[1]
    if getattr(cls.error, "_vf_wrapped", False):
        return
    orig = cls.error

    def error(self, message, item=None):
        _LAST_READER_ERROR[0] = str(message)
        return orig(self, message, item)

    error._vf_wrapped = True
    cls.error = error


def classify(exc):
    """Mechanism key of an escaping exception."""
    fr = fp.fparser_frames(exc.__traceback__)
    tname = type(exc).__name__
    if isinstance(exc, SystemExit):
        # the caller of reader.error() and what it complained about (digits and quoted text folded)
        callers = [f for f in fr if not f[0].endswith(".error")]
        where = callers[-1][0] if callers else "?"
        msg = re.sub(r"'[^']*'|\"[^\"]*\"|\d+|<[^>]*>|\bis \S+ but got \S+", "_", _LAST_READER_ERROR[0] or "?")
        return "SystemExit@%s:%s" % (where, " ".join(msg.split()[:5]))
    where = fr[-1][0] if fr else "?"
    return "%s@%s" % (tname, where)


def run_one(text, std, opts, how, raw=None):
    """Returns (outcome, key/detail).  outcome in tree|syntaxerror|violation|budget|timeout."""
    nm = None
    nm = monitors.NewMonitor.installed
    if nm is not None:
        nm.reset()
    tmpdir = None
    _watch_reader_error()
    _LAST_READER_ERROR[0] = None
    try:
        try:
            parser = fp.create(std)
            if how == "file":
                tmpdir = tempfile.mkdtemp(prefix="vfc06_")
                path = os.path.join(tmpdir, "in.f90")
                with open(path, "wb") as f:
                    f.write(raw)
                reader = fp.FortranFileReader(path, **opts)
            elif how == "free":
                reader = free_reader(text, **opts)
            elif how == "fixed":
                from fparser.common.sourceinfo import FortranFormat

                reader = fp.FortranStringReader(text, **opts)
                reader.set_format(FortranFormat(False, False))
            else:
                reader = fp.FortranStringReader(text, **opts)
            tree = parser(reader)
            if tree is not None:
                str(tree)
            return "tree", None
        except fp.FortranSyntaxError:
            return "syntaxerror", None
        except monitors.StepBudgetExceeded as e:
            return "budget", str(e)
        except monitors.CaseTimeout:
            raise
        except BaseException as e:  # noqa
            if isinstance(e, KeyboardInterrupt):
                raise
            return "violation", (classify(e), "%s: %s" % (type(e).__name__, str(e)[:150]))
    finally:
        fp.SYMBOL_TABLES.clear()
        if tmpdir:
            shutil.rmtree(tmpdir, ignore_errors=True)


_LABEL_DO = re.compile(r"^\s*(\w+\s*:\s*)?do\s*\d+", re.I | re.M)


def bytes_mutant(src, rng):
    raw = bytearray(src.encode("utf-8"))
    for _ in range(rng.randint(1, 4)):
        p = rng.randrange(len(raw) + 1)
        c = rng.random()
        if c < 0.4:
            ins = bytes([rng.randint(0x80, 0xFF)])
        elif c < 0.6:
            ins = rng.choice([b"\xc3", b"\xe2\x82", b"\xf0\x9f\x98", b"\xc3\xa9", b"\xe2\x82\xac"])
        elif c < 0.75:
            ins = b"\x00"
        elif c < 0.85:
            ins = b"\xff\xfe"
        else:
            ins = bytes(rng.randint(0x80, 0xFF) for _ in range(rng.randint(2, 5)))
        raw[p:p] = ins
    return bytes(raw)


def check_systematic(payload):
    r = random.Random(payload["seed"])
    std = r.choice(["f2003", "f2008"])
    # a pool of small valid programs; the statements to enumerate are drawn uniformly over the statement KINDS present
    # in the pool (not over statements), so that rare kinds get the same share as assignments
    pool = [generate(r.getrandbits(40), std, size=0.45, max_units=1) for _ in range(6)]
    by_kind = {}
    for pi, Q in enumerate(pool):
        for si, st in enumerate(Q.stmts):
            by_kind.setdefault(st.kind, []).append((pi, si))
    picks = [r.choice(by_kind[k]) for k in r.sample(sorted(by_kind), min(payload["nstmts"], len(by_kind)))]
    viols, digs = [], []
    mons = {"inputs_run": 0, "trees": 0, "syntax_errors": 0, "budget_exempt": 0, "systematic_inputs": 0}
    tally = {"outcome": [], "mode": [], "systematic_class": [], "systematic_kind": []}
    seen = set()
    sample = None
    for pi, i in picks:
        lines = pool[pi].canonical().split("\n")
        for cls, variant in mutate.systematic_variants(lines[i]):
            text = "\n".join(lines[:i] + [variant] + lines[i + 1:])
            opts = {"ignore_comments": False} if r.random() < 0.3 else {}
            out, info = run_one(text, std, opts, "free")
            mons["inputs_run"] += 1
            mons["systematic_inputs"] += 1
            tally["outcome"].append(out)
            tally["mode"].append("systematic")
            tally["systematic_class"].append(cls)
            tally["systematic_kind"].append(pool[pi].stmts[i].kind)
            single = {"mode": "single", "text": text, "std": std, "opts": opts, "how": "free", "raw_hex": None}
            if out == "tree":
                mons["trees"] += 1
            elif out == "syntaxerror":
                mons["syntax_errors"] += 1
            elif out == "budget":
                if len(_LABEL_DO.findall(text)) > 4:
                    mons["budget_exempt"] += 1
                elif "step-budget-exceeded" not in seen:
                    seen.add("step-budget-exceeded")
                    viols.append(viol("step-budget-exceeded", "more than %d rule-constructor calls" % STEP_BUDGET, payload=single))
                continue
            elif out == "violation":
                key, det = info
                if key not in seen:
                    seen.add(key)
                    viols.append(viol(key, "%s | statement %r changed to %r (%s)" % (det, lines[i].strip(), variant.strip(), cls), payload=single))
                continue
            digs.append(digest(text, std, sorted(opts.items()), "free"))
            if sample is None:
                sample = {"mode": "systematic", "std": std, "statement": lines[i].strip(), "variant": variant.strip(), "outcome": out}
    return {"violations": viols, "digests": digs, "monitors": mons, "tally": tally, "evaluations": max(1, mons["inputs_run"]),
            "sample": sample}


def check(payload):
    viols, digs = [], []
    mons = {"inputs_run": 0, "trees": 0, "syntax_errors": 0, "budget_exempt": 0}
    tally = {"outcome": [], "mode": []}
    if payload["mode"] == "single":
        raw = bytes.fromhex(payload["raw_hex"]) if payload.get("raw_hex") else None
        out, info = run_one(payload.get("text"), payload["std"], payload["opts"], payload["how"], raw)
        if out == "violation":
            viols.append(viol(info[0], info[1]))
        elif out == "budget":
            viols.append(viol("step-budget-exceeded", info))
        return {"violations": viols, "digests": [], "monitors": {"inputs_run": 1}, "tally": tally}
    if payload["mode"] == "systematic":
        return check_systematic(payload)
    r = random.Random(payload["seed"])
    sample = None
    seen = set()
    for _ in range(payload["n"]):
        std = r.choice(["f2003", "f2008"])
        opts = {}
        if r.random() < 0.5:
            opts["ignore_comments"] = False
            if r.random() < 0.3:
                opts["process_directives"] = True
        if r.random() < 0.1:
            opts["include_omp_conditional_lines"] = True
        mode = r.random()
        raw = None
        how = r.choice(["free", "auto"])
        parent = None
        if mode < 0.7:
            P = base_program(r.randrange(300), std)
            c = r.random()
            if c < 0.4:
                parent = P.canonical()
            elif c < 0.8:
                parent, _ = layout.render(P, random.Random(r.getrandbits(32)),
                                          dict(p_cont=0.2, p_semi=0.1, p_case=0.2, comments=True, indent="depth"))
            else:
                parent, _ = fixedform.render(P, random.Random(r.getrandbits(32)), dict(wrap=r.choice([72, 50]), comments=True, p_semi=0.1))
                how = r.choice(["fixed", "auto"])
            text = mutate.mutate_text(parent, r)
            m = "mutant"
        elif mode < 0.85:
            text = mutate.random_text(r)
            m = "random"
        else:
            P = base_program(r.randrange(300), std)
            parent = P.canonical()
            raw = bytes_mutant(parent, r)
            text = None
            how = "file"
            m = "bytes"
        tally["mode"].append(m)
        out, info = run_one(text, std, opts, how, raw)
        mons["inputs_run"] += 1
        tally["outcome"].append(out)
        single = {"mode": "single", "text": text, "std": std, "opts": opts, "how": how,
                  "raw_hex": raw.hex() if raw is not None else None}
        if out == "tree":
            mons["trees"] += 1
        elif out == "syntaxerror":
            mons["syntax_errors"] += 1
        elif out == "budget":
            src = text if text is not None else raw.decode("utf-8", "replace")
            if len(_LABEL_DO.findall(src)) > 4 or src.count("\n") > 400:
                mons["budget_exempt"] += 1
                continue
            if "step-budget-exceeded" not in seen:
                seen.add("step-budget-exceeded")
                viols.append(viol("step-budget-exceeded", "more than %d rule-constructor calls" % STEP_BUDGET, payload=single))
            continue
        elif out == "violation":
            key, det = info
            if key not in seen:
                seen.add(key)
                viols.append(viol(key, "%s | input: %r" % (det, (text if text is not None else raw)[:300]), payload=single))
            continue
        if text != parent:
            digs.append(digest(text if text is not None else raw, std, sorted(opts.items()), how))
        if sample is None and text is not None:
            sample = {"mode": m, "std": std, "opts": opts, "text": text[:600], "outcome": out}
    return {"violations": viols, "digests": digs, "monitors": mons, "tally": tally, "evaluations": payload["n"],
            "sample": sample}
