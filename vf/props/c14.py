"""C14 preprocessor directives are kept as nodes and do not disturb the Fortran."""
import re
import random

from .. import fp
from ..common import payload_program, program_payload, digest, parse_monitored
from ..canon import shape, ShapeOpts, first_diff, iter_nodes
from .base import gen_program, viol, shrink_program

ID = "C14"
LEVEL = "exploration"
TIERS = {"quick": {"cases": 2200, "wall": 100, "min_nontrivial": 1200},
         "thorough": {"cases": 60000, "wall": 1800, "min_nontrivial": 12000}}
RULE = ("generator -> valid program P (one statement per line); C-preprocessor lines drawn from #if/#ifdef/#ifndef/"
        "#elif/#else/#endif, #include \"f\" and <f>, #define (object-like, function-like, empty body, string bodies), "
        "#undef, #line, line markers '# n \"f\" flags', #error, #warning, the null directive; with blanks before/after "
        "'#' and backslash continuations over 2-3 lines; inserted at every kind of statement boundary (before the first "
        "unit, between units, after the last, directly after openers, before closers, next to comments, inside every "
        "construct), comments kept or dropped. Oracles: shape(tree(P+D)) with Cpp nodes dropped == shape(tree(P)); the "
        "directive nodes in tree order are one per inserted line, in order, and print the inserted text (after splicing "
        "backslash-newlines and normalising white space); reader-item conservation. non-trivial = >=2 directives; "
        "distinct by SHA-1 of text")
ASSUMPTIONS = ["#pragma, '#include MACRO' and C comments on directive lines are outside the supported class and not generated"]
DECIDING_MONITORS = ("directives_checked",)

FOLD_DROP = ShapeOpts(fold_all=True, drop=("Comment",), drop_cpp=True, prune_empty=True)
FOLD = ShapeOpts(fold_all=True, drop=("Comment",), prune_empty=True)

DIRECTIVES = [
    "#if defined(VF_X) && VF_Y > 1", "#ifdef VF_X", "#ifndef VF_X", "#elif VF_X == 2", "#else", "#endif",
    '#include "f.h"', "#include <sys.h>", "#define VF_X 1", "#define VF_F(a,b) ((a)+(b))", "#define VF_EMPTY", "#undef VF_X",
    '#line 10 "f.F90"', '# 12 "f.F90" 2', "#error some text here", "#warning careful now", "#", "  #  define VF_Y 2",
    "#define VF_LONG a + \\\n   b + \\\n c", "#if VF_X \\\n && VF_Y", '#  include  "sp ace.h"', "# if VF_X",
    '#define VF_S "str ! not a comment"', "#define VF_Q 'a'", "#else  ! fortran comment", "#endif // c++",
    "#define VF_END end", "#define VF_AMP x = &", '#include "sub/dir/Mixed.Case.H"', "#undef  VF_Y", "#ifdef vf_lower",
    "#define vf_lower(x) x", "    #endif", "#error", "#define VF_SEMI a; b",
    "#define VF_CAT 'hello, ' // 'world'", "#warning see http://example.org/x", "#if VF_X // 2 > 1", '#line 5 "a//b.F90"',
    "#error a /* c */ b", "#define VF_C /* c comment */ 1", "#elif VF_Z // 3 == 1", "#define VF_BANG a ! b", "#warning it's // here",
]


def make_payload(rng, idx, tier):
    P, meta = gen_program(rng, tier, size=rng.choice([0.5, 1.0, 1.0]))
    meta["ins_seed"] = rng.getrandbits(32)
    meta["ic"] = rng.random() < 0.6
    meta["density"] = rng.choice([0.08, 0.15, 0.3])
    return program_payload(P, **meta)


def norm(d):
    d = d.replace("\\\n", " ")
    d = " ".join(d.split())
    d = re.sub(r"^#\s+(?=[A-Za-z])", "#", d)
    return d


def build(P, payload):
    r = random.Random(payload["ins_seed"])
    lines = []
    inserted = []

    def maybe(n_at_least=0):
        k = 0
        while r.random() < payload["density"] or k < n_at_least:
            d = r.choice(DIRECTIVES)
            inserted.append(d)
            lines.extend(d.split("\n"))
            k += 1
            if not payload["ic"] and r.random() < 0.2:
                lines.append("  ! a comment next to a directive")

    maybe()
    for s in P.stmts:
        lines.append("  " * s.depth + s.src())
        maybe()
    return "\n".join(lines) + "\n", inserted


def one(P, std, payload, mons=None):
    text, inserted = build(P, payload)
    ic = payload["ic"]
    ref = parse_monitored(P.canonical(), std, conserve=False, ignore_comments=True)
    if ref.error is not None:
        return None, text, 0
    r = parse_monitored(text, std, ignore_comments=ic)
    if r.error is not None:
        return viol("rejected", "source with inserted directives rejected: %s" % str(r.error)[:160].replace("\n", " | ")), text, len(inserted)
    a, b = shape(ref.tree, FOLD), shape(r.tree, FOLD_DROP)
    if a != b:
        d = first_diff(a, b)
        m = re.search(r"/(\w+): child count", d or "")
        key = "fortran-tree-changed"
        if m:
            key = "block-split-by-directive:" + m.group(1)
        return viol(key, d), text, len(inserted)
    nodes = [n for n in iter_nodes(r.tree) if type(n).__name__.startswith("Cpp_") and getattr(n, "item", None) is not None]
    got = [norm(str(n)) for n in nodes]
    exp = [norm(d) for d in inserted]
    if len(got) != len(exp):
        key = "directive-count"
        return viol(key, "%d directive nodes for %d inserted lines" % (len(got), len(exp))), text, len(inserted)
    angle = None
    for k, (g, e) in enumerate(zip(got, exp)):
        if g != e:
            if e.startswith("#include <") and g == e.replace("<", '"').replace(">", '"'):
                # known finding; keep checking the remaining directives
                angle = viol("include-angle-brackets-printed-as-quotes", "directive %d: inserted %r, node prints %r" % (k, e, g))
                exp[k] = g
                continue
            return viol("directive-text-changed", "directive %d: inserted %r, node prints %r" % (k, e, g)), text, len(inserted)
    out_dirs = [norm(l) for l in str(r.tree).split("\n") if l.lstrip().startswith("#")]
    if out_dirs != exp:
        return viol("directive-regenerated-text", "directive lines of str(tree) differ from the inserted ones"), text, len(inserted)
    if r.conservation:
        return viol("item-conservation", "; ".join(r.conservation)), text, len(inserted)
    if mons is not None:
        mons["directives_checked"] += len(inserted)
    if angle is not None:
        return angle, text, len(inserted)
    return None, text, len(inserted)


def check_raw(payload):
    r = parse_monitored(payload["text"], payload["std"], ignore_comments=True)
    vs = []
    if r.error is not None:
        vs.append(viol(payload.get("key", "rejected"), str(r.error)[:160]))
    else:
        nodes = [n for n in iter_nodes(r.tree) if type(n).__name__.startswith("Cpp_") and getattr(n, "item", None) is not None]
        got = [norm(str(n)) for n in nodes]
        if got != payload["directives"]:
            vs.append(viol(payload.get("key", "directive-text-changed"), "directive nodes %r, expected %r" % (got, payload["directives"])))
    return {"violations": vs, "digests": [], "monitors": {"directives_checked": 1}, "tally": {}}


def check(payload):
    if payload.get("mode") == "raw":
        return check_raw(payload)
    P = payload_program(payload)
    std = payload["std"]
    viols, digs = [], []
    mons = {"directives_checked": 0}
    v, text, nd = one(P, std, payload, mons)
    if v is None or v["key"] == "include-angle-brackets-printed-as-quotes":
        if nd >= 2:
            digs.append(digest(text, std, payload["ic"]))
    if v is None:
        pass
    else:
        key = v["key"]

        def still(Q):
            w, _, _ = one(Q, std, payload)
            return w is not None and w["key"] == key

        Q = shrink_program(P, still, budget=60 if key != "include-angle-brackets-printed-as-quotes" else 0)
        w, qtext, _ = one(Q, std, payload)
        v["shrunk"] = {"source": qtext, "detail": w["detail"] if w else None}
        v["payload"] = dict(payload, program=Q.to_json())
        viols.append(v)
    return {"violations": viols, "digests": digs, "monitors": mons, "tally": {"ic": [payload["ic"]]},
            "sample": {"text": text[:700]}}
