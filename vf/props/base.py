"""Helpers shared by the program-driven property modules."""
from ..gen.program import generate
from ..common import program_payload, payload_program, digest


def gen_program(rng, tier, std=None, size=None, **kw):
    if std is None:
        std = rng.choice(["f2003", "f2008"])
    if size is None:
        size = rng.choice([0.5, 1.0, 1.0, 1.5, 2.0] if tier == "thorough" else [0.5, 1.0, 1.0, 1.5])
    seed = rng.getrandbits(48)
    P = generate(seed, std, size=size, **kw)
    return P, {"gen_seed": seed, "std": std, "size": size}


def nontrivial(P, min_stmts=6, min_kinds=3):
    return len(P.stmts) >= min_stmts and len(set(P.kinds())) >= min_kinds


def kinds_tally(P):
    return {"stmt_kinds": P.kinds()}


def stmt_at_line(P, lineno):
    """Canonical rendering is one statement per line."""
    if 1 <= lineno <= len(P.stmts):
        return P.stmts[lineno - 1]
    return None


def viol(key, detail, **kw):
    d = {"key": key, "detail": detail}
    d.update(kw)
    return d


# ------------------------------------------------------------------ shrinking
def _without(P, drop):
    from ..gen.model import Program, Stmt

    keep = [Stmt.from_json(s.to_json()) for i, s in enumerate(P.stmts) if i not in drop]
    return Program(keep, P.std, P.meta)


def shrink_program(P, still_fails, budget=150):
    """Bounded delta-minimiser that preserves validity: removes whole program
    units, whole constructs (opener..closer), then single non-structural
    statements, while still_fails(P') is true."""
    used = 0
    changed = True
    while changed and used < budget:
        changed = False
        cands = []
        # units
        units = sorted({s.unit for s in P.stmts})
        if len(units) > 1:
            for u in units:
                cands.append({i for i, s in enumerate(P.stmts) if s.unit == u})
        # constructs / nested units by cid
        opens = {}
        for i, s in enumerate(P.stmts):
            if s.role == "open" and s.cid is not None:
                opens[s.cid] = i
            elif s.role == "close" and s.cid in opens:
                a = opens[s.cid]
                if not ("unit_open" in P.stmts[a].flags and P.stmts[a].depth == 0):
                    cands.append(set(range(a, i + 1)))
        cands.sort(key=lambda c: -len(c))
        for i, s in enumerate(P.stmts):
            if s.role is None and s.kind not in ("contains",):
                cands.append({i})
        for drop in cands:
            if used >= budget:
                break
            # a shared-label DO nest must go as a whole: do not cut a range that
            # leaves a label_do opener without its terminator
            Q = _without(P, drop)
            if not _do_labels_ok(Q):
                continue
            used += 1
            try:
                ok = still_fails(Q)
            except BaseException:
                ok = False
            if ok:
                P = Q
                changed = True
                break
    return P


def _do_labels_ok(P):
    pending = []
    for s in P.stmts:
        if s.kind == "label_do":
            pending.append(s.extra.get("do_label"))
        if s.label and pending and s.label in pending:
            while pending and pending[-1] == s.label:
                pending.pop()
            if s.label in pending:
                return False
    return not pending
