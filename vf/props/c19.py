"""C19 the legacy statement-level parser (fparser1) round-trips its own output."""
import re
import random

from .. import fp, fixedform
from ..common import digest
from ..lexer import fold_squash, LexError
from ..gen.model import Stmt, Program, to_src, to_strict
from ..gen.program import Env
from ..gen.expr import ExprGen, text_of
from .base import viol, shrink_program

ID = "C19"
LEVEL = "exploration"
TIERS = {"quick": {"cases": 12000, "wall": 100, "min_nontrivial": 5000},
         "thorough": {"cases": 250000, "wall": 1800, "min_nontrivial": 100000}}
RULE = ("dedicated generator for the Fortran 77/90 subset fparser1 has statement classes for (program / subroutine / "
        "function / module / block data, type declarations in old and new style, parameter, dimension, common, data, "
        "save, external, intrinsic, implicit, use, derived types, interface blocks, IF / DO / labelled DO / DO WHILE / "
        "SELECT CASE / WHERE / FORALL constructs and statements, labelled DO closed by CONTINUE, by a labelled action "
        "statement, by a labelled END DO or shared by 2-3 loops, named constructs, labels on arbitrary statements, "
        "assignment, pointer assignment, call, I/O statements with keyword specifiers and label references, file "
        "positioning, inquire, goto, computed goto, arithmetic if, stop, pause, return, entry, cycle, exit, allocate / "
        "deallocate with STAT=, nullify, format, implicit with ranges, kind/len selector spellings, common with "
        "several and blank blocks, data with several sets and implied-DO, equivalence, namelist, attribute statements, "
        "access statements, use with renames) with the full expression "
        "generator; free and fixed input, analyze in {False, True}. Oracles: S1 = str(api.parse(P)) exists; "
        "api.parse(S1) succeeds; the bodies of S1 and S2 = str(api.parse(S1)) are equal ignoring the !BEGINSOURCE "
        "header, indentation and blanks after a label; the (statement class, depth) sequence from api.walk is the same "
        "for both trees; every statement of P appears in S1 with the same text compared blank- and case-insensitively "
        "outside character literals (literals exact), in order. non-trivial = >=8 statements and >=4 kinds; distinct "
        "by SHA-1 of source")
ASSUMPTIONS = ["the reader lower-cases non-literal text for fparser1, so names are compared case-insensitively",
               "named SELECT CASE is an upstream xfail and is not generated"]
DECIDING_MONITORS = ("programs_roundtripped",)


class G:
    def __init__(self, seed):
        self.r = random.Random(seed)
        self.env = Env(self.r)
        self.eg = ExprGen(self.r, self.env, hostile=True, defined_ops=False, case_ops=True)
        self.out = []
        self.depth = 0
        self.cid = 0
        self.labels = set()
        self.pending = []

    def p(self, x):
        return self.r.random() < x

    def S(self, kind, text, label=None, cname=None, role=None, cid=None):
        s = Stmt(kind, text, self.env.take_used(), label=label, cname=cname, role=role, cid=cid)
        s.depth = self.depth
        s.unit = 0
        self.out.append(s)
        return s

    def label(self):
        while True:
            l = self.r.randint(1, 9999)
            if l not in self.labels:
                self.labels.add(l)
                return str(l)

    def ref(self):
        if self.pending and self.p(0.5):
            return self.r.choice(self.pending)
        l = self.label()
        self.pending.append(l)
        return l

    def ncid(self):
        self.cid += 1
        return self.cid

    def expr(self, d=None):
        return text_of(self.eg.expr(self.r.choice([0, 1, 2]) if d is None else d))

    def lexpr(self):
        e = self.eg.level4(1)
        if e[0] != "bin":
            e = ("bin", self.r.choice(["==", ".lt.", ">"]), e, ("leaf", self.env.scalar()))
        return text_of(e)

    def var(self):
        c = self.r.random()
        if c < 0.6:
            return self.env.scalar()
        if c < 0.85:
            return self.eg.array_ref(1, sections=False)
        return self.eg.component(1)

    # ---- units
    def generate(self):
        for _ in range(self.r.choice([1, 1, 2])):
            k = self.r.choice(["program", "subroutine", "function", "module", "blockdata"])
            getattr(self, "u_" + k)()
        return Program(self.out, "f90")

    def u_program(self):
        n = self.env.fresh()
        c = self.ncid()
        self.S("program", "program " + n, role="open", cid=c)
        self.depth += 1
        self.spec(True)
        self.execs()
        self.depth -= 1
        self.S("end_program", "end program " + n, role="close", cid=c)

    def u_subroutine(self, contained=False):
        n = self.env.fresh()
        c = self.ncid()
        args = list(dict.fromkeys(self.env.scalar() for _ in range(self.r.randint(0, 3))))
        self.S("subroutine", "%ssubroutine %s(%s)" % (self.r.choice(["", "", "recursive ", "pure "]), n, ", ".join(args)), role="open", cid=c)
        self.depth += 1
        self.spec(True)
        self.execs(sub=True)
        self.depth -= 1
        self.S("end_subroutine", "end subroutine " + n, role="close", cid=c)

    def u_function(self, contained=False):
        n = self.env.fresh()
        c = self.ncid()
        args = list(dict.fromkeys(self.env.scalar() for _ in range(self.r.randint(0, 3))))
        pre = self.r.choice(["", "", "integer ", "real ", "logical ", "double precision "])
        rv = self.env.scalar() if self.p(0.3) else None
        res = " result(%s)" % rv if rv else ""
        self.S("function", "%sfunction %s(%s)%s" % (pre, n, ", ".join(args), res), role="open", cid=c)
        self.depth += 1
        if rv and not pre and self.p(0.6):
            self.env.note(rv)
            self.S("typedecl", "%s %s" % (self.r.choice(["integer", "real"]), rv))
        self.spec(True)
        self.execs(sub=True)
        self.depth -= 1
        self.S("end_function", "end function " + n, role="close", cid=c)

    def u_module(self):
        n = self.env.fresh()
        c = self.ncid()
        self.S("module", "module " + n, role="open", cid=c)
        self.depth += 1
        self.in_module = True
        self.spec(False, module=True)
        self.in_module = False
        if self.p(0.6):
            self.S("contains", "contains", role="mid", cid=c)
            for _ in range(self.r.randint(1, 2)):
                self.u_subroutine(True) if self.p(0.5) else self.u_function(True)
        self.depth -= 1
        self.S("end_module", "end module " + n, role="close", cid=c)

    def u_blockdata(self):
        n = self.env.fresh()
        c = self.ncid()
        self.S("blockdata", "block data " + n, role="open", cid=c)
        self.depth += 1
        for _ in range(self.r.randint(1, 3)):
            self.r.choice([self.s_common, self.s_typedecl, self.s_data])()
        self.depth -= 1
        self.S("end_blockdata", "end block data " + n, role="close", cid=c)

    # ---- spec
    def spec(self, execu, module=False):
        r = self.r
        for _ in range(r.choice([0, 0, 1])):
            m = self.env.modname()
            c = r.random()
            if c < 0.4:
                self.S("use", "use " + m)
            elif c < 0.6:
                self.S("use", "use %s, only: %s" % (m, self.env.scalar()))
            elif c < 0.75:
                self.S("use", "use %s, only: %s, %s => %s" % (m, self.env.scalar(), self.env.scalar(), self.env.const()))
            elif c < 0.9:
                self.S("use", "use %s, %s => %s" % (m, self.env.scalar(), self.env.const()))
            else:
                self.S("use", "use %s, only:" % m)
        if self.p(0.5):
            self.S("implicit", "implicit none")
        if self.p(0.25):
            self.s_implicit()
        pool = [self.s_typedecl] * 5 + [self.s_parameter, self.s_dimension, self.s_common, self.s_data, self.s_save,
                                        self.s_external, self.s_type, self.s_interface, self.s_typedecl2, self.s_common2,
                                        self.s_data2, self.s_equivalence, self.s_namelist, self.s_attr_stmt]
        if module:
            pool += [self.s_access, self.s_access]
        for _ in range(r.randint(0, 5)):
            r.choice(pool)()

    def s_implicit(self):
        r = self.r
        ts = r.choice(["real", "integer", "double precision", "real{+(KIND=+}{-(-}8)", "complex", "logical", "character{+(LEN=+}{-(-}4)",
                       "real*8"])
        rng = r.choice(["(a-h, o-z)", "(i-n)", "(a)", "(x, y, z)", "(a-c, q)"])
        self.S("implicit", "implicit %s %s" % (ts, rng))

    def s_typedecl2(self):
        """selector and entity shapes beyond s_typedecl"""
        r = self.r
        ts = r.choice(["double complex", "real(kind(1.0d0))", "integer(selected_int_kind(5))", "real(kind=kind(0.0))", "character(len=5, kind=1)",
                       "character*(*)", "character*(10)", "character(*)", "complex(kind=8)", "complex*16", "logical*1",
                       "integer(kind=%s)" % self.env.const(), "real(%s)" % self.env.const(),
                       "character(len=%s)" % self.env.const(), "character(len=2*3)"])
        ents = []
        for _ in range(r.randint(1, 3)):
            e = self.env.scalar()
            c = r.random()
            if c < 0.3:
                e += "(%s)" % r.choice(["-1:1", "2, 0:3", "n", "3, *"])
            elif c < 0.4 and ts.startswith("character") and "*" not in ts:
                e += "*%s" % r.choice(["4", "(8)"])
            ents.append(e)
        sep = " :: " if self.p(0.6) else " "
        self.S("typedecl2", ts + sep + ", ".join(ents))

    def s_common2(self):
        r = self.r
        a, b = self.env.const(), self.env.const()
        v = lambda: self.env.scalar() + r.choice(["", "", "(5)"])  # noqa: E731
        self.S("common2", r.choice([
            "common %s, %s" % (v(), v()),
            "common // %s" % v(),
            "common /%s/ %s, /%s/ %s" % (a, v(), b, v()),
            "common /%s/ %s /%s/ %s, %s" % (a, v(), b, v(), v()),
            "common /%s/ %s // %s" % (a, v(), v()),
        ]))

    def s_data2(self):
        r = self.r
        x, y, z = self.env.scalar(), self.env.scalar(), self.env.array()
        self.S("data2", r.choice([
            "data %s, %s /1, 2/" % (x, y),
            "data %s /1/, %s /2.5/" % (x, y),
            "data %s /10*0/" % z,
            "data (%s(i), i = 1, 3) /1, 2, 3/" % z,
            "data %s, %s /2*0.0/" % (x, y),
            "data %s /'it''s'/" % x,
            "data %s(1), %s(2) /1, -2/" % (z, z),
        ]))

    def s_equivalence(self):
        self.S("equivalence", "equivalence (%s, %s(1))" % (self.env.scalar(), self.env.array()))

    def s_namelist(self):
        self.S("namelist", "namelist /%s/ %s, %s" % (self.env.const(), self.env.scalar(), self.env.scalar()))

    def s_attr_stmt(self):
        r = self.r
        k = r.choice(["pointer", "target", "allocatable", "optional", "intent(in)", "intent(out)", "volatile", "save /%s/" % self.env.const(),
                      "save %s, /%s/" % (self.env.scalar(), self.env.const())])
        if k.startswith("save"):
            self.S("save2", k)
            return
        sep = " :: " if self.p(0.5) else " "
        ent = self.env.scalar() + ("(:)" if k in ("pointer", "allocatable") and self.p(0.4) else "")
        self.S("attr_stmt", k + sep + ent)

    def s_access(self):
        r = self.r
        k = r.choice(["public", "private"])
        if self.p(0.3):
            self.S("access", k)
        else:
            self.S("access", k + r.choice([" :: ", " "]) + ", ".join(self.env.scalar() for _ in range(r.randint(1, 2))))

    def s_typedecl(self):
        r = self.r
        ts = r.choice(["integer", "real", "logical", "complex", "double precision", "character",
                       "integer{+(KIND=+}{-(-}4)", "real{+(KIND=+}{-(-}8)", "real(kind=8)", "integer*4", "real*8",
                       "character{+(LEN=+}{-(-}10)", "character(len=*)", "character{-*5-}{+(LEN=5)+}",
                       "type(%s)" % self.env.typename()])
        attrs = r.sample(["dimension(10)", "allocatable", "pointer", "target", "save", "intent(in)", "optional",
                          "parameter", "dimension(:)", "intent(inout)"], r.choice([0, 0, 1, 2]))
        if "parameter" in attrs:
            attrs = [a for a in attrs if a in ("parameter", "dimension(10)")]
        ents = []
        for _ in range(r.randint(1, 3)):
            e = self.env.scalar()
            if self.p(0.25) and not any(a.startswith("dimension") for a in attrs):
                e += "(%s)" % r.choice(["10", "5, 5", "0:9", ":"] if "allocatable" not in attrs and "pointer" not in attrs else [":"])
            if "parameter" in attrs or self.p(0.15):
                e += " = " + self.eg.int_lit().split("_")[0]
            ents.append(e)
        if attrs or any("=" in e for e in ents) or self.p(0.5):
            t = ts + "".join(", " + a for a in attrs) + " :: " + ", ".join(ents)
        else:
            t = ts + " " + ", ".join(ents)
        self.S("typedecl", t)

    def s_parameter(self):
        self.S("parameter", "parameter (%s)" % ", ".join("%s = %s" % (self.env.const(), self.eg.int_lit().split("_")[0])
                                                          for _ in range(self.r.randint(1, 2))))

    def s_dimension(self):
        self.S("dimension", "dimension %s(%s)" % (self.env.array(), self.r.choice(["10", "2, 3", "0:9"])))

    def s_common(self):
        self.S("common", "common /%s/ %s" % (self.env.const(), ", ".join(self.env.scalar() for _ in range(self.r.randint(1, 3)))))

    def s_data(self):
        self.S("data", "data %s /%s/" % (self.env.scalar(), self.r.choice(["1", "2.5", "'abc'", ".true.", "3*0"])))

    def s_save(self):
        self.S("save", "save" if self.p(0.4) else "save " + self.env.scalar())

    def s_external(self):
        self.S("external", self.r.choice(["external ", "intrinsic "]) + self.r.choice([self.env.function(), "sin", "max"]))

    def s_type(self):
        n = self.env.typename()
        c = self.ncid()
        attrs = ""
        if getattr(self, "in_module", False) and self.p(0.4):
            attrs = ", " + self.r.choice(["public", "private"]) + " ::"
        elif self.p(0.2):
            attrs = " ::"
        self.S("type_def", "type%s %s" % (attrs, n), role="open", cid=c)
        self.depth += 1
        if self.p(0.15):
            self.S("sequence", self.r.choice(["sequence", "private"]))
        for _ in range(self.r.randint(1, 3)):
            c = self.r.random()
            cn = self.env.compname()
            if c < 0.15:
                self.S("component", "type(%s), pointer :: %s" % (n, cn))
            elif c < 0.3:
                self.S("component", "%s, dimension(3) :: %s" % (self.r.choice(["integer", "real", "logical"]), cn))
            elif c < 0.45:
                self.S("component", "%s :: %s%s" % (self.r.choice(["integer", "real", "real(kind=8)"]), cn, self.r.choice(["(2)", " = 0", "(0:1, 3)"])))
            elif c < 0.55:
                self.S("component", "%s, pointer :: %s%s" % (self.r.choice(["integer", "real"]), cn, self.r.choice(["", "(:)"])))
            else:
                self.S("component", "%s :: %s" % (self.r.choice(["integer", "real", "character(len=8)", "logical"]), cn))
        self.depth -= 1
        self.S("end_type", "end type " + n, role="close", cid=c)

    def s_interface(self):
        c = self.ncid()
        gen = self.env.procname() if self.p(0.4) else None
        self.S("interface", "interface" + (" " + gen if gen else ""), role="open", cid=c)
        self.depth += 1
        for _ in range(self.r.randint(0, 2)):
            n = self.env.fresh()
            c2 = self.ncid()
            a = self.env.scalar()
            self.S("subroutine", "subroutine %s(%s)" % (n, a), role="open", cid=c2)
            self.depth += 1
            self.env.note(a)
            self.S("typedecl", "real :: " + a)
            self.depth -= 1
            self.S("end_subroutine", "end subroutine " + n, role="close", cid=c2)
        if gen and self.p(0.5):
            self.S("module_procedure", "module procedure " + self.env.procname())
        self.depth -= 1
        self.S("end_interface", "end interface" + (" " + self.env.note(gen) if gen and self.p(0.5) else ""), role="close", cid=c)

    # ---- exec
    def execs(self, sub=False):
        self.sub = sub
        self.loops = 0
        self.body(self.r.randint(1, 8), 3)
        for l in self.pending:
            self.S("continue", "continue", label=l)
        self.pending = []

    def body(self, n, nest):
        for _ in range(n):
            if nest > 0 and self.p(0.3):
                self.r.choice([self.c_if, self.c_do, self.c_ldo, self.c_dowhile, self.c_select, self.c_where, self.c_forall,
                               self.c_ldo_action, self.c_ldo_shared, self.c_named])(nest - 1)
            else:
                self.simple()

    def sub_body(self, nest):
        self.depth += 1
        self.body(self.r.randint(0, 3), nest)
        self.depth -= 1

    def c_if(self, nest):
        c = self.ncid()
        self.S("if_then", "if (%s) then" % self.lexpr(), role="open", cid=c)
        self.sub_body(nest)
        for _ in range(self.r.choice([0, 0, 1])):
            self.S("else_if", "%s (%s) then" % (self.r.choice(["else if", "elseif"]), self.lexpr()), role="mid", cid=c)
            self.sub_body(nest)
        if self.p(0.5):
            self.S("else", "else", role="mid", cid=c)
            self.sub_body(nest)
        self.S("end_if", self.r.choice(["end if", "endif"]), role="close", cid=c)

    def c_do(self, nest):
        c = self.ncid()
        self.S("do", "do %s = %s, %s" % (self.env.loopvar(), self.eg.iexpr(0), self.eg.iexpr(1)), role="open", cid=c)
        self.loops += 1
        self.sub_body(nest)
        self.loops -= 1
        self.S("end_do", self.r.choice(["end do", "enddo"]), role="close", cid=c)

    def c_ldo(self, nest):
        c = self.ncid()
        l = self.label()
        s = self.S("label_do", "do %s %s = %s, %s" % (l, self.env.loopvar(), self.eg.iexpr(0), self.eg.iexpr(0)), role="open", cid=c)
        s.extra = {"do_label": l, "style": "continue"}
        self.loops += 1
        self.sub_body(nest)
        self.loops -= 1
        self.S("do_term_continue", "continue", label=l, role="close", cid=c)

    def c_ldo_action(self, nest):
        """labelled DO closed by a labelled action statement or by a labelled END DO"""
        c = self.ncid()
        l = self.label()
        s = self.S("label_do", "do %s%s %s = %s, %s" % (l, self.r.choice(["", "", ","]), self.env.loopvar(), self.eg.iexpr(0), self.eg.iexpr(0)),
                   role="open", cid=c)
        s.extra = {"do_label": l}
        self.loops += 1
        self.sub_body(nest)
        self.loops -= 1
        if self.p(0.3):
            self.S("end_do", "end do", label=l, role="close", cid=c)
        else:
            self.depth += 1
            self.S("do_term_action", self.r.choice(["%s = %s" % (self.env.scalar(), self.expr(1)),
                                                     "call %s(%s)" % (self.env.procname(), self.expr(0)),
                                                     "print *, %s" % self.expr(0)]), label=l, role="close", cid=c)
            self.depth -= 1

    def c_ldo_shared(self, nest):
        """2-3 labelled DO statements sharing one terminal statement"""
        l = self.label()
        k = self.r.choice([2, 2, 3])
        cids = []
        for j in range(k):
            c = self.ncid()
            cids.append(c)
            s = self.S("label_do", "do %s %s = %s, %s" % (l, self.env.loopvar(), self.eg.iexpr(0), self.eg.iexpr(0)), role="open", cid=c)
            s.extra = {"do_label": l, "shared": True}
            self.depth += 1
            if self.p(0.4):
                self.simple()
        self.loops += k
        self.body(self.r.randint(0, 2), 0)
        self.loops -= k
        self.depth -= k
        self.depth += 1
        self.S("do_term_shared", self.r.choice(["continue", "continue", "%s = %s" % (self.env.scalar(), self.expr(1))]), label=l,
               role="close", cid=cids[0])
        self.depth -= 1

    def c_named(self, nest):
        """construct names (lower case: fparser1's reader folds the case of the name in the END statement only)"""
        c = self.ncid()
        n = self.env.fresh().lower()
        k = self.r.choice(["do", "if", "dowhile", "select"])
        if k == "do":
            self.S("do", "do %s = %s, %s" % (self.env.loopvar(), self.eg.iexpr(0), self.eg.iexpr(1)), cname=n, role="open", cid=c)
            self.loops += 1
            self.sub_body(nest)
            if self.p(0.3):
                self.depth += 1
                self.S("cycle_exit", self.r.choice(["cycle ", "exit "]) + n)
                self.depth -= 1
            self.loops -= 1
            self.S("end_do", "end do " + n, role="close", cid=c)
        elif k == "dowhile":
            self.S("do", "do while (%s)" % self.lexpr(), cname=n, role="open", cid=c)
            self.loops += 1
            self.sub_body(nest)
            self.loops -= 1
            self.S("end_do", "end do " + n, role="close", cid=c)
        elif k == "if":
            self.S("if_then", "if (%s) then" % self.lexpr(), cname=n, role="open", cid=c)
            self.sub_body(nest)
            if self.p(0.4):
                self.S("else", "else", role="mid", cid=c)
                self.sub_body(nest)
            self.S("end_if", "end if " + n, role="close", cid=c)
        else:
            self.S("select_case", "select case (%s)" % self.eg.iexpr(0), cname=n, role="open", cid=c)
            self.S("case", "case (%s)" % self.r.choice(["1", "'a':'z'", "-1:", "1, 3:5, 9"]), role="mid", cid=c)
            self.sub_body(nest)
            self.S("end_select", "end select " + n, role="close", cid=c)

    def c_dowhile(self, nest):
        c = self.ncid()
        self.S("do", "do while (%s)" % self.lexpr(), role="open", cid=c)
        self.loops += 1
        self.sub_body(nest)
        self.loops -= 1
        self.S("end_do", "end do", role="close", cid=c)

    def c_select(self, nest):
        c = self.ncid()
        self.S("select_case", "select case (%s)" % self.eg.iexpr(0), role="open", cid=c)
        for k in range(self.r.randint(0, 2)):
            self.S("case", "case (%s)" % self.r.choice(["1", "2:4", ":0", "5, 7"]), role="mid", cid=c)
            self.sub_body(nest)
        if self.p(0.5):
            self.S("case_default", "case default", role="mid", cid=c)
            self.sub_body(nest)
        self.S("end_select", "end select", role="close", cid=c)

    def c_where(self, nest):
        c = self.ncid()
        self.S("where", "where (%s)" % self.lexpr(), role="open", cid=c)
        self.depth += 1
        for _ in range(self.r.randint(0, 2)):
            self.S("assign", "%s = %s" % (self.env.array(), self.expr(1)))
        self.depth -= 1
        if self.p(0.5):
            self.S("elsewhere", "elsewhere", role="mid", cid=c)
            self.depth += 1
            self.S("assign", "%s = %s" % (self.env.array(), self.expr(1)))
            self.depth -= 1
        self.S("end_where", "end where", role="close", cid=c)

    def c_forall(self, nest):
        c = self.ncid()
        v = self.env.loopvar()
        self.S("forall", "forall (%s = 1:%s)" % (v, self.eg.iexpr(0)), role="open", cid=c)
        self.depth += 1
        self.S("assign", "%s(%s) = %s" % (self.env.array(), v, self.expr(1)))
        self.depth -= 1
        self.S("end_forall", "end forall", role="close", cid=c)

    def simple(self):
        r = self.r
        if self.p(0.22):
            return self.simple2()
        n0 = len(self.out)
        self._simple()
        if len(self.out) == n0 + 1 and self.out[-1].label is None and self.p(0.08):
            # any executable statement may carry a label
            self.out[-1].label = self.label()

    def simple2(self):
        r = self.r
        a, b = self.env.array(), self.env.array()
        x = self.env.scalar()
        lab = lambda: self.ref()  # noqa: E731
        pick = r.choice(["where", "where", "forall", "cgoto", "io2", "io3", "alloc2", "nullify", "rewind", "inquire", "pause",
                         "entry", "char", "ifcall", "assign2"])
        if pick == "where":
            self.S("where_stmt", "where (%s %s %s) %s%s = %s" % (a, r.choice([">", "/=", ".lt."]), self.eg.int_lit().split("_")[0],
                                                                    b, r.choice(["", "(1:3)", "(:)", "(2:)"]), self.expr(1)))
        elif pick == "forall":
            v = self.env.loopvar()
            self.S("forall_stmt", "forall (%s = 1:%s%s) %s(%s) = %s" % (v, self.eg.iexpr(0), r.choice(["", ":2"]), a, v, self.expr(0)))
        elif pick == "cgoto":
            self.S("cgoto", "%s (%s, %s)%s %s" % (r.choice(["go to", "goto"]), lab(), lab(), r.choice(["", ","]), self.eg.iexpr(0)))
        elif pick == "io2":
            self.S("write2", "write (unit = %s, fmt = %s, iostat = %s) %s" % (r.choice(["6", "*", x]), r.choice(["*", "'(a)'", lab()]),
                                                                              self.env.scalar(), self.expr(1)))
        elif pick == "io3":
            self.S("read2", r.choice(["read (5, %s, end = %s, err = %s) %s" % (lab(), lab(), lab(), self.var()),
                                      "read %s, %s" % (lab(), self.var()), "read *, %s, %s" % (self.var(), self.var()),
                                      "print %s, %s" % (lab(), self.expr(0)), "print '(a)', %s" % self.expr(0),
                                      "write (*, *) (%s(i), i = 1, 3)" % a]))
        elif pick == "alloc2":
            self.S("allocate2", r.choice(["allocate (%s(%s), %s(2, 0:%s), stat = %s)" % (a, self.eg.iexpr(0), b, self.eg.iexpr(0), x),
                                          "deallocate (%s, %s, stat = %s)" % (a, b, x)]))
        elif pick == "nullify":
            self.S("nullify", "nullify (%s%s)" % (x, ", " + self.env.scalar() if self.p(0.4) else ""))
        elif pick == "rewind":
            self.S("filepos", r.choice(["rewind", "backspace", "endfile"]) + r.choice([" 10", " (10)", " (unit = 10, iostat = %s)" % x]))
        elif pick == "inquire":
            self.S("inquire", "inquire (file = 'a.dat', exist = %s)" % x)
        elif pick == "pause":
            self.S("pause", r.choice(["pause", "pause 3", "pause 'wait'"]))
        elif pick == "entry" and self.sub and self.depth == 1:
            self.S("entry", "entry %s(%s)" % (self.env.fresh(), self.env.scalar()))
        elif pick == "char":
            self.S("assign", "%s = %s // %s" % (x, r.choice(["'a''b'", '"say ""hi"""', "'x ! y'", "'a; b'", "'it & that'"]),
                                                r.choice([self.env.scalar(), "'(/'", "'** .and. //'"])))
        elif pick == "ifcall":
            self.S("if_stmt", "if (%s) %s" % (self.lexpr(), r.choice(["call %s(%s)" % (self.env.procname(), self.expr(0)), "goto " + lab(),
                                                                     "return" if self.sub else "stop", "print *, %s" % self.expr(0),
                                                                     "write (*, *) %s" % self.expr(0)])),
                   label=None)
        else:
            self.S("assign", "%s%s = %s" % (a, r.choice(["(1:3)", "(:, 1)", "(2)", "(i, j + 1)", "(::2)"]), self.expr(1)))

    def _simple(self):
        r = self.r
        c = r.random()
        if c < 0.35:
            self.S("assign", "%s = %s" % (self.var(), self.expr()))
        elif c < 0.42:
            self.S("ptr_assign", "%s => %s" % (self.env.scalar(), self.var()))
        elif c < 0.52:
            args = ", ".join(self.expr(1) for _ in range(r.randint(0, 3)))
            self.S("call", "call %s(%s)" % (self.env.procname(), args))
        elif c < 0.58:
            self.S("if_stmt", "if (%s) %s = %s" % (self.lexpr(), self.var(), self.expr(1)))
        elif c < 0.64:
            self.S("print", "print *, " + ", ".join(self.expr(1) for _ in range(r.randint(1, 3))))
        elif c < 0.70:
            self.S("write", "write (%s, %s) %s" % (r.choice(["*", "6", self.env.scalar()]), r.choice(["*", "'(a, i3)'", self.ref()]),
                                                    ", ".join(self.expr(1) for _ in range(r.randint(1, 2)))))
        elif c < 0.74:
            self.S("read", "read (%s, *) %s" % (r.choice(["*", "5"]), self.var()))
        elif c < 0.77:
            self.S("open", "open (unit = 10, file = %s, status = 'old')" % r.choice(["'data.txt'", self.env.scalar()]))
        elif c < 0.79:
            self.S("close", "close (10)")
        elif c < 0.82:
            self.S("goto", r.choice(["go to ", "goto "]) + self.ref())
        elif c < 0.84:
            self.S("arith_if", "if (%s) %s, %s, %s" % (self.eg.iexpr(1), self.ref(), self.ref(), self.ref()))
        elif c < 0.86:
            self.S("continue", "continue", label=self.label() if self.p(0.5) else None)
        elif c < 0.88:
            self.S("stop", r.choice(["stop", "stop 1", "stop 'done'"]))
        elif c < 0.90 and self.sub:
            self.S("return", "return")
        elif c < 0.93 and self.loops:
            self.S("cycle_exit", r.choice(["cycle", "exit"]))
        elif c < 0.96:
            self.S("allocate", "allocate (%s(%s))" % (self.env.array(), self.eg.iexpr(0)))
        elif c < 0.98:
            self.S("deallocate", "deallocate (%s)" % self.env.array())
        else:
            l = self.label()
            self.S("format", "format (%s)" % r.choice(["i5, 2f8.3", "a, 1x, i3", "'text', a"]), label=l)


def make_payload(rng, idx, tier):
    P = G(rng.getrandbits(48)).generate()
    return {"program": P.to_json(), "form": rng.choice(["free", "free", "fixed"]), "analyze": rng.random() < 0.5,
            "layout_seed": rng.getrandbits(32)}


def body_lines(text):
    out = []
    for l in text.split("\n"):
        s = l.strip()
        if not s or s.startswith("!"):
            continue
        s = re.sub(r"^(\d+)\s+", r"\1 ", s)
        out.append(s)
    return out


def one(P, payload, mons=None):
    from fparser import api

    form = payload["form"]
    if payload.get("mode") == "raw":
        src = payload["text"]
    elif form == "free":
        src = P.canonical()
    else:
        src, _ = fixedform.render(P, random.Random(payload["layout_seed"]), dict(wrap=72, comments=False, p_extra_break=0.1))
    kw = dict(isfree=(form == "free"), isstrict=False, analyze=payload["analyze"], ignore_comments=True)
    try:
        t1 = api.parse(src, **kw)
        s1 = str(t1)
    except BaseException as e:  # noqa
        if isinstance(e, KeyboardInterrupt):
            raise
        # the property speaks about programs api.parse accepts: outside the premise
        return "not-accepted", src
    b1 = body_lines(s1)
    try:
        t2 = api.parse("\n".join(s1.split("\n")[1:]) + "\n", isfree=True, isstrict=False, analyze=payload["analyze"], ignore_comments=True)
        s2 = str(t2)
    except BaseException as e:  # noqa
        if isinstance(e, KeyboardInterrupt):
            raise
        return viol("regenerated-rejected:%s" % type(e).__name__, "(%s) regenerated source is not accepted again: %s" % (form, str(e)[:200].replace("\n", " | "))), src
    b2 = body_lines(s2)
    if b1 != b2:
        k = next((i for i, (x, y) in enumerate(zip(b1, b2)) if x != y), min(len(b1), len(b2)))
        return viol("reparse-text-differs", "line %d: %r vs %r" % (k, b1[k] if k < len(b1) else None, b2[k] if k < len(b2) else None)), src
    w1 = [(type(s).__name__, d) for s, d in api.walk(t1)]
    w2 = [(type(s).__name__, d) for s, d in api.walk(t2)]
    if w1 != w2:
        k = next((i for i, (x, y) in enumerate(zip(w1, w2)) if x != y), min(len(w1), len(w2)))
        return viol("reparse-structure-differs", "walk item %d: %r vs %r" % (k, w1[k] if k < len(w1) else None, w2[k] if k < len(w2) else None)), src
    if payload.get("mode") == "raw":
        want = payload.get("expected_body")
        if want is not None and [x.lower() for x in b1] != [x.lower() for x in want]:
            return viol(payload.get("key", "statement-text-changed"), "regenerated %r, expected %r" % (b1, want)), src
        return None, src
    # content: every statement of P appears in S1 in order
    if len(b1) != len(P.stmts):
        return viol("statement-count", "%d statements in the source, %d regenerated" % (len(P.stmts), len(b1))), src
    for i, st in enumerate(P.stmts):
        try:
            exp_text = st.strict() if st.kind in ("typedecl", "function") else st.src()
            e, g = fold_squash(exp_text), fold_squash(b1[i])
        except LexError as err:
            return viol("lexer", str(err)), src
        if e != g and not known_rewrite(st, e, g):
            return viol("statement-text-changed:" + st.kind, "statement %d: source %r regenerated %r" % (i, st.src(), b1[i])), src
    if mons is not None:
        mons["programs_roundtripped"] += 1
    return None, src


def known_rewrite(st, e, g):
    """fparser1's own spelling choices that keep every token: blanks only
    (already removed), optional '::', '*' after CASE/WHERE keywords."""
    e2 = e.replace("::", "")
    g2 = g.replace("::", "")
    if e2 == g2:
        return True
    if st.kind == "call" and e.endswith("()") and g == e[:-2]:
        return True      # empty argument parentheses
    if st.kind.startswith("end_") and g.startswith(e):
        return True      # END <type> <name> completion
    if st.kind in ("typedecl", "typedecl2", "implicit", "component", "function"):
        # selector spelling: KIND= / LEN= made explicit, character*(n) written as (LEN=n)
        def norm(x):
            x = x.replace("::", "")
            x = re.sub(r"^character\*\(([^()]*)\)", r"character(\1)", x)
            return re.sub(r"\((kind|len)=", "(", x)
        if norm(e) == norm(g):
            return True
    # optional punctuation the standard allows to be left out or added (no token of the program is lost)
    if st.kind == "cgoto" and re.sub(r"\),", ")", e, count=1) == g:
        return True      # GO TO (l1, l2)[,] expr
    if st.kind == "label_do" and re.sub(r"^(\d*do\d+),", r"\1", e) == g:
        return True      # DO label[,] var = ...
    if st.kind == "data2" and e.replace("/,", "/") == g:
        return True      # DATA a /1/[,] b /2/
    if st.kind == "common2" and e.replace(",/", "/") == g:
        return True      # COMMON /a/ x[,] /b/ y
    if st.kind == "common2" and e.startswith("common//") and "common" + e[8:] == g:
        return True      # COMMON // x  ==  COMMON x
    if st.kind == "filepos":
        m = re.match(r"^(\d*)(rewind|backspace|endfile)(\w+)$", e)
        if m and g == "%s%s(%s)" % m.groups():
            return True  # REWIND 10  ==  REWIND (10)
    return False


def refine_key(P, payload, v):
    """Narrow mechanism keys for the findings known at design time."""
    k = v["key"]
    if k.startswith("regenerated-rejected") and any(
            st.kind in ("typedecl", "typedecl2", "component") and re.search(r"(::|\s)\s*function\w*", to_src(st.text), re.I) for st in P.stmts):
        return "regenerated-typedecl-without-colons-reads-as-function-stmt"
    if payload["analyze"] and sum(1 for st in P.stmts if st.kind == "interface" and st.text.strip() == "interface") >= 2 \
            and k in ("reparse-text-differs", "reparse-structure-differs", "statement-count"):
        return "analyze-merges-unnamed-interface-blocks"
    return k


def check(payload):
    if payload.get("mode") == "raw":
        v, _ = one(None, payload)
        if isinstance(v, dict):
            v["key"] = payload.get("key_map", {}).get(v["key"], v["key"])
        return {"violations": [v] if isinstance(v, dict) else [], "digests": [], "monitors": {"programs_roundtripped": 1}, "tally": {}}
    P = Program.from_json(payload["program"])
    viols, digs = [], []
    mons = {"programs_roundtripped": 0}
    v, src = one(P, payload, mons)
    if v == "not-accepted":
        return {"violations": [], "digests": [], "monitors": {"programs_roundtripped": 0, "not_accepted": 1},
                "tally": {"form": [payload["form"]]}}
    if v is None:
        if len(P.stmts) >= 8 and len(set(P.kinds())) >= 4:
            digs.append(digest(src, payload["form"], payload["analyze"]))
    else:
        key = v["key"]

        def still(Q):
            w, _ = one(Q, payload)
            return isinstance(w, dict) and w["key"] == key

        Q = shrink_program(P, still, budget=80)
        w, qsrc = one(Q, payload)
        v["shrunk"] = {"source": qsrc, "detail": w["detail"] if isinstance(w, dict) else None}
        v["payload"] = dict(payload, program=Q.to_json())
        v["key"] = refine_key(Q, payload, v)
        viols.append(v)
    return {"violations": viols, "digests": digs, "monitors": mons,
            "tally": {"form": [payload["form"]], "stmt_kinds": P.kinds()},
            "sample": {"form": payload["form"], "analyze": payload["analyze"], "source": src[:700]}}
