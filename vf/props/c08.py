"""C08 ill-nested constructs and unbalanced parentheses are never accepted (fault enumeration)."""
import random

from .. import fp, monitors
from ..common import payload_program, program_payload, digest, free_reader, stream_monitor
from ..lexer import lex_spans
from ..gen.model import Stmt, Program
from .base import gen_program, viol

ID = "C08"
LEVEL = "fault_enumeration"
TIERS = {"quick": {"cases": 400, "wall": 100, "min_nontrivial": 5000},
         "thorough": {"cases": 8000, "wall": 1800, "min_nontrivial": 100000}}
RULE = ("for each generated valid program, EVERY single structural mutation of these classes (each invalid by "
        "construction): delete the END statement of any construct/unit; delete the opener of any construct closed by an "
        "END xxx statement (not PROGRAM, not units closed by a bare END, not DO loops closed by a labelled non-END-DO "
        "statement); delete the labelled terminator of a labelled DO; insert a surplus END (every second one with a statement label of its own) IF/DO/SELECT/WHERE/FORALL/"
        "ASSOCIATE/BLOCK/CRITICAL/TYPE/INTERFACE or a surplus opener at every 5th statement boundary of an execution "
        "part; rename the construct name on any END/ELSE/CASE/type-guard statement; delete or insert one parenthesis at "
        "every parenthesis position outside character context. Oracle: the parse must raise (any exception); an "
        "accepted mutant is a violation, with the reader-item conservation report attached. distinct by SHA-1 of mutant")
ASSUMPTIONS = ["each mutation class yields an invalid program by construction (classes that can leave a valid program are excluded)"]
DECIDING_MONITORS = ("mutants_checked",)
EXHAUSTIVE = {"quick": True, "thorough": True, "note": "exhaustive per program over the listed mutation classes; programs are sampled"}

SURPLUS_END = ["end if", "end do", "end select", "end where", "end forall", "end associate", "end type", "end interface"]
SURPLUS_END08 = ["end block", "end critical"]
SURPLUS_OPEN = ["if (vf_c) then", "do vf_i = 1, 2", "select case (vf_i)", "where (vf_m)", "forall (vf_i = 1:2)",
                "associate (vf_a => vf_b)", "do while (vf_c)"]
SURPLUS_OPEN08 = ["block", "critical", "do concurrent (vf_i = 1:2)"]

# statement kinds that share one matcher (one mechanism, one key)
KIND_FAMILY = {"do_concurrent": "do", "label_do": "do", "function": "subprogram", "subroutine": "subprogram",
               "component": "typedecl", "proc_component": "procdecl"}

EXEC_KINDS = {"assign", "call", "print", "write", "read", "if_stmt", "goto", "stop", "continue", "allocate", "deallocate",
              "nullify", "open", "close", "where_stmt", "forall_stmt", "ptr_assign", "return", "cycle", "exit"}


def make_payload(rng, idx, tier):
    P, meta = gen_program(rng, tier, size=rng.choice([0.5, 1.0, 1.0, 1.5]))
    return program_payload(P, **meta)


def _mk(text, like):
    s = Stmt("mutant_insert", text)
    s.depth, s.unit = like.depth, like.unit
    return s


def mutations(P):
    """Yields (class, description, list of source lines)."""
    st = P.stmts
    lines = [("  " * s.depth) + s.src() for s in st]
    opener = {}
    for i, s in enumerate(st):
        if s.role == "open" and s.cid is not None:
            opener[s.cid] = i
    f08 = P.std == "f2008"
    has_prog = any(x.kind == "program" for x in st)
    bare_main_at = next((k for k, x in enumerate(st) if x.kind == "end_program"), None) if not has_prog else None
    for i, s in enumerate(st):
        if s.role == "close" and "unit_close" in s.flags and s.depth == 0 and bare_main_at is not None and i < bare_main_at \
                and st[i + 1].unit == st[bare_main_at].unit:
            # the unit in front of a PROGRAM-less main program: without its END it simply runs on to the main
            # program's END - wrong statement order perhaps, but properly terminated; not certainly ill-nested
            continue
        if s.role == "close":
            if s.kind in ("do_term_continue", "do_term_action") or (s.kind == "end_do" and s.label):
                yield "delete-do-terminator", "%d:%s" % (i, s.src()), lines[:i] + lines[i + 1:]
            else:
                yield "delete-closer", "%d:%s" % (i, s.src()), lines[:i] + lines[i + 1:]
            j = opener.get(s.cid)
            if j is not None:
                o = st[j]
                bare_end = s.src().strip().lower() == "end"
                if o.kind == "program" or bare_end:
                    pass
                elif o.kind == "label_do" and s.kind != "end_do":
                    pass
                elif o.kind == "label_do" and o.extra.get("style") in ("shared", "shared-inner"):
                    pass
                else:
                    yield "delete-opener", "%d:%s" % (j, o.src()), lines[:j] + lines[j + 1:]
        # rename construct names
        cn = None
        if s.cid is not None and s.role in ("mid", "close"):
            j = opener.get(s.cid)
            if j is not None and st[j].cname and st[j].cname in s.text.split():
                cn = st[j].cname
                new = s.prefix() + " ".join(w if w != cn else cn + "_zz" for w in s.src()[len(s.prefix()):].split(" "))
                yield "rename-construct-name", "%d:%s" % (i, s.src()), lines[:i] + ["  " * s.depth + new] + lines[i + 1:]
        if s.role == "close" and "unit_close" in s.flags:
            j = opener.get(s.cid)
            if j is not None:
                words = s.src().split()
                if len(words) >= 3 and words[-1] in st[j].names:
                    new = " ".join(words[:-1] + [words[-1] + "_zz"])
                    yield "rename-unit-end-name", "%d:%s" % (i, s.src()), lines[:i] + ["  " * s.depth + new] + lines[i + 1:]
        # parentheses
        src = s.src()
        try:
            spans = lex_spans(src)
        except Exception:
            spans = []
        ind = "  " * s.depth
        parens = [(a, t) for t, c, a, b in spans if c == "P" and t in ("(", ")")]
        for a, t in parens:
            yield "delete-paren", "%d@%d:%s" % (i, a, src), lines[:i] + [ind + src[:a] + src[a + 1:]] + lines[i + 1:]
        for a, t in parens[:6]:
            yield "insert-paren", "%d@%d:%s" % (i, a, src), lines[:i] + [ind + src[:a] + t + src[a:]] + lines[i + 1:]
    # surplus END / opener at execution-part boundaries
    k = 0
    for i, s in enumerate(st):
        if s.kind in EXEC_KINDS and s.role is None and not s.label:
            k += 1
            if k % 5 == 0:
                ends = SURPLUS_END + (SURPLUS_END08 if f08 else [])
                opens = SURPLUS_OPEN + (SURPLUS_OPEN08 if f08 else [])
                e = ends[(k // 5) % len(ends)]
                o = opens[(k // 5) % len(opens)]
                ind = "  " * s.depth
                yield "surplus-end", "%d:%s" % (i, e), lines[:i] + [ind + e] + lines[i:]
                if k % 10 == 0 and not any("99998" in l for l in lines):
                    # the surplus END carries a statement label of its own (no DO names that label)
                    yield "surplus-end", "%d:99998 %s" % (i, e), lines[:i] + [ind + "99998 " + e] + lines[i:]
                yield "surplus-opener", "%d:%s" % (i, o), lines[:i] + [ind + o] + lines[i:]


def run(text, std):
    sm = stream_monitor()
    try:
        reader = free_reader(text)
        sm.watch(reader)
        tree = fp.create(std)(reader)
    except (monitors.StepBudgetExceeded, monitors.CaseTimeout):
        return "budget", None
    except BaseException as e:  # noqa
        if isinstance(e, KeyboardInterrupt):
            raise
        return "rejected", type(e).__name__
    finally:
        sm.reader = None
        fp.SYMBOL_TABLES.clear()
    cons = sm.conservation(tree) if tree is not None else []
    return "accepted", cons


def check(payload):
    std = payload["std"]
    P = payload_program(payload) if payload.get("program") else None
    viols, digs = [], []
    mons = {"mutants_checked": 0, "budget_exceeded": 0}
    tally = {"class": [], "rejected_with": []}
    seen = set()
    if payload.get("mutant_text") is not None:
        out, info = run(payload["mutant_text"], std)
        if out == "accepted":
            viols.append(viol("accepted:" + payload["mutant_class"], "ill-formed program accepted; conservation: %s" % info))
        return {"violations": viols, "digests": [], "monitors": {"mutants_checked": 1}, "tally": tally}
    # the un-mutated program must parse, otherwise nothing is learned
    base, _ = run(P.canonical(), std)
    if base != "accepted":
        return {"violations": [], "digests": [], "monitors": mons, "tally": tally}
    n = 0
    for cls, desc, lines in mutations(P):
        text = "\n".join(lines) + "\n"
        out, info = run(text, std)
        n += 1
        if out == "budget":
            mons["budget_exceeded"] += 1
            continue
        mons["mutants_checked"] += 1
        tally["class"].append(cls)
        if out == "rejected":
            tally["rejected_with"].append(info)
            digs.append(digest(text, std))
            continue
        try:
            kind = P.stmts[int(desc.split(":")[0].split("@")[0])].kind
        except Exception:
            kind = "?"
        kind = KIND_FAMILY.get(kind, kind)
        key = "accepted:%s@%s" % (cls, kind)
        if info and any("attached to no tree node" in x for x in info):
            key = "accepted-with-statements-dropped:%s@%s" % (cls, kind)
        if key not in seen:
            seen.add(key)
            viols.append(viol(key, "%s accepted after mutation %s [%s]; reader-item conservation: %s" % (
                std, cls, desc[:120], "; ".join(info) if info else "all consumed items are in the tree"),
                payload={"std": std, "mutant_text": text, "mutant_class": "%s@%s" % (cls, kind), "program": payload["program"]},
                shrunk={"source": text}))
    return {"violations": viols, "digests": digs, "monitors": mons, "tally": tally, "evaluations": max(1, n),
            "sample": {"std": std, "source": P.canonical()[:600]}}
