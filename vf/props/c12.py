"""C12 the reader delivers each logical line once, in order, with exact line numbers;
push-back leaves the stream unchanged."""
import random

from .. import fp, layout, fixedform
from ..common import payload_program, program_payload, digest, free_reader, parse_monitored
from ..lexer import squash, LexError
from .base import gen_program, viol

ID = "C12"
LEVEL = "exploration"
TIERS = {"quick": {"cases": 3000, "wall": 100, "min_nontrivial": 1500},
         "thorough": {"cases": 80000, "wall": 1800, "min_nontrivial": 20000}}
RULE = ("statement lists from the generator rendered in free form (continuations at token boundaries and inside "
        "character literals, ';' joins, labels, construct names, comments/blank lines everywhere) and in fixed form "
        "(labels in cols 1-5, any continuation mark, arbitrary wrap column, comment lines between continuations); "
        "comments kept or dropped. Oracle 1: list(reader) == expected items (count, order, text modulo blanks outside "
        "character literals, label, construct name, (first,last) span; comment items with text and line). Oracle 2: "
        ">=3 random read-ahead/push-back walks per source (read k<=6, put back some in reverse, repeat, drain) observe "
        "the same net stream and get the same objects on re-read. Oracle 3: the real parser as consumer under M-STREAM "
        "(re-read returns the same object, put-backs are LIFO). non-trivial = source with >=6 statements; distinct by "
        "SHA-1 of (text, options)")
ASSUMPTIONS = ["';'-joined statements carry the span of the whole physical line group (the reader's definition)",
               "tabs and text beyond column 72 are not generated"]
DECIDING_MONITORS = ("items_compared", "pushback_walks")

FREE_LAYOUTS = [
    dict(p_cont=0.3, p_semi=0.15, comments=True, p_blank=0.08, p_str_split=0.08, indent="random", max_breaks=3),
    dict(p_cont=0.5, p_semi=0.0, comments=True, p_blank=0.05, p_str_split=0.15, p_lead_amp=0.3, indent="depth", max_breaks=4, p_tok_split=0.03),
    dict(p_cont=0.1, p_semi=0.3, comments=False, p_blank=0.1, indent="random", p_trailing_semi=0.1),
]
FIXED_LAYOUTS = [
    dict(wrap=72, comments=True), dict(wrap=40, comments=True, p_between=0.3), dict(wrap=60, comments=True, p_semi=0.15),
    dict(wrap=72, comments=False, p_extra_break=0.4),
]


def make_payload(rng, idx, tier):
    P, meta = gen_program(rng, tier, size=rng.choice([0.5, 1.0]))
    meta["layout_seed"] = rng.getrandbits(32)
    meta["form"] = rng.choice(["free", "free", "fixed"])
    meta["li"] = rng.randrange(len(FREE_LAYOUTS) if meta["form"] == "free" else len(FIXED_LAYOUTS))
    meta["ic"] = rng.random() < 0.4
    return program_payload(P, **meta)


def render(P, payload):
    r = random.Random(payload["layout_seed"])
    if payload["form"] == "free":
        return layout.render(P, r, FREE_LAYOUTS[payload["li"]])
    return fixedform.render(P, r, FIXED_LAYOUTS[payload["li"]])


def reader_for(text, form, ic):
    from fparser.common.sourceinfo import FortranFormat

    rd = fp.FortranStringReader(text, ignore_comments=ic)
    rd.set_format(FortranFormat(form == "free", False))
    return rd


def expected_items(P, info, form, ic):
    """List of ('L', text, label, name, span) / ('C', text, span)."""
    out = []
    first, last = info["stmt_first"], info["stmt_last"]
    # statement groups
    groups = []
    for i in range(len(P.stmts)):
        if groups and first[i] == first[groups[-1][0]] and last[i] == last[groups[-1][0]]:
            groups[-1].append(i)
        else:
            groups.append([i])
    comments = info["comments"]
    ci = 0
    for g in groups:
        a, b = first[g[0]], last[g[0]]
        while ci < len(comments) and comments[ci][0] < a:
            ln, txt, kind, _ = comments[ci]
            if not ic:
                out.append(("C", txt.strip(), (ln, ln)))
            ci += 1
        for i in g:
            st = P.stmts[i]
            body = st.src()[len(st.prefix()):]
            out.append(("L", body, int(st.label) if st.label else None, st.cname, (a, b)))
        while ci < len(comments) and comments[ci][0] <= b:
            ln, txt, kind, _ = comments[ci]
            if kind != "blank" and not ic:
                out.append(("C", txt.strip(), (ln, ln)))
            ci += 1
    while ci < len(comments):
        ln, txt, kind, _ = comments[ci]
        if not ic:
            out.append(("C", txt.strip(), (ln, ln)))
        ci += 1
    return out


def item_sig(it):
    from fparser.common.readfortran import Comment, Line

    if isinstance(it, Comment):
        return ("C", it.comment.strip(), tuple(it.span))
    if isinstance(it, Line):
        return ("L", it.line, it.label, it.name, tuple(it.span))
    return (type(it).__name__, getattr(it, "line", None), tuple(getattr(it, "span", ())))


def same_text(a, b):
    try:
        return squash(a)[0] == squash(b)[0]
    except LexError:
        return a.replace(" ", "") == b.replace(" ", "")


def compare_items(got, exp):
    n = min(len(got), len(exp))
    for k in range(n):
        g, e = got[k], exp[k]
        if g[0] != e[0]:
            return "item-kind", "item %d: got %r expected %r" % (k, g, e)
        if g[0] == "C":
            if g[1] != e[1]:
                return "comment-text", "item %d: comment %r expected %r" % (k, g[1], e[1])
            if g[2] != e[2]:
                return "comment-span", "item %d: comment %r span %r expected %r" % (k, g[1], g[2], e[2])
            continue
        if not same_text(g[1], e[1]):
            if g[1].lower().replace(" ", "") == e[1].lower().replace(" ", "") or (
                    squash_safe(g[1]).lower() == squash_safe(e[1]).lower()):
                return "line-text-case", "item %d: text %r expected %r (differs in case only)" % (k, g[1], e[1])
            return "line-text", "item %d: text %r expected %r" % (k, g[1], e[1])
        if g[2] != e[2]:
            return "label", "item %d (%r): label %r expected %r" % (k, g[1][:40], g[2], e[2])
        if (g[3] or None) != (e[3] or None):
            if g[3] and e[3] and g[3].lower() == e[3].lower():
                return "construct-name-case", "item %d (%r): name %r expected %r" % (k, g[1][:40], g[3], e[3])
            return "construct-name", "item %d (%r): name %r expected %r" % (k, g[1][:40], g[3], e[3])
        if g[4] != e[4]:
            return "span", "item %d (%r): span %r expected %r" % (k, g[1][:40], g[4], e[4])
    if len(got) != len(exp):
        extra = got[n] if len(got) > n else exp[n]
        return "item-count", "%d items delivered, %d expected; first unmatched %r" % (len(got), len(exp), extra)
    return None


def squash_safe(s):
    try:
        return squash(s)[0]
    except LexError:
        return s.replace(" ", "")


def walks(text, form, ic, base, seeds):
    """Random read-ahead / push-back walks.  Returns (key, detail) or None."""
    for sd in seeds:
        r = random.Random(sd)
        rd = reader_for(text, form, ic)
        net = []
        while True:
            k = r.randint(1, 6)
            got = []
            for _ in range(k):
                it = rd.get_item()
                if it is None:
                    break
                got.append(it)
            if not got:
                break
            back = r.randint(0, len(got))
            for it in reversed(got[len(got) - back:]):
                rd.put_item(it)
            for it in got[len(got) - back:]:
                again = rd.get_item()
                if again is not it:
                    return "pushback-reread-differs", "after put_item the reader returned %r instead of the same object %r" % (
                        item_sig(again) if again is not None else None, item_sig(it))
            net.extend(item_sig(i) for i in got)
        if net != base:
            k = next((j for j, (x, y) in enumerate(zip(net, base)) if x != y), min(len(net), len(base)))
            return "pushback-changes-stream", "walk seed %d: net stream differs from plain iteration at item %d: %r vs %r" % (
                sd, k, net[k] if k < len(net) else None, base[k] if k < len(base) else None)
    return None


def check(payload):
    P = payload_program(payload)
    form, ic = payload["form"], payload["ic"]
    text, info = render(P, payload)
    viols = []
    mons = {"items_compared": 0, "pushback_walks": 0, "parser_next": 0, "parser_put": 0}
    tally = {"form": [form], "stmt_kinds": P.kinds()}
    exp = expected_items(P, info, form, ic)
    try:
        got = [item_sig(it) for it in reader_for(text, form, ic)]
    except BaseException as e:  # noqa
        if isinstance(e, KeyboardInterrupt):
            raise
        key = "reader-raises:" + type(e).__name__
        return {"violations": [viol(key, str(e)[:200], shrunk={"source": text})],
                "digests": [], "monitors": mons, "tally": tally}
    mons["items_compared"] += len(got)
    # blank lines are not comments: the reader represents some of them as empty
    # Comment items and skips others; neither is asserted
    blank = lambda x: x[0] == "C" and x[1] == ""  # noqa: E731
    d = compare_items([g for g in got if not blank(g)], [e for e in exp if not blank(e)])
    if d:
        key = d[0] + ":" + form
        viols.append(viol(key, "(%s, ignore_comments=%s) %s" % (form, ic, d[1]), shrunk={"source": text}))
    w = walks(text, form, ic, got, [payload["layout_seed"] + k for k in range(3)])
    mons["pushback_walks"] += 3
    if w:
        viols.append(viol(w[0], "(%s) %s" % (form, w[1]), shrunk={"source": text}))
    # the real parser as a read-ahead/restore consumer
    if form == "free":
        r = parse_monitored(text, payload["std"], ignore_comments=ic, conserve=False)
        mons["parser_next"] += r.n_next
        mons["parser_put"] += r.n_put
        if r.anomalies:
            a = r.anomalies[0]
            viols.append(viol("parser-consumer:" + a[0], "while parsing, at stream position %s: had %s, got %s" % (a[1], a[2], a[3]),
                              shrunk={"source": text}))
    digs = [digest(text, form, ic)] if len(P.stmts) >= 6 and not viols else []
    return {"violations": viols, "digests": digs, "monitors": mons, "tally": tally,
            "sample": {"form": form, "ignore_comments": ic, "text": text[:700]}}
