"""C15 OpenMP conditional-compilation lines: parsed when enabled, comments otherwise."""
import random

from .. import fp
from ..common import payload_program, program_payload, digest, stream_monitor
from ..canon import shape, ShapeOpts, first_diff
from ..lexer import lex_spans
from ..gen.model import Program, Stmt
from .base import gen_program, viol, shrink_program

ID = "C15"
LEVEL = "exploration"
TIERS = {"quick": {"cases": 2400, "wall": 100, "min_nontrivial": 1200},
         "thorough": {"cases": 60000, "wall": 1800, "min_nontrivial": 12000}}
RULE = ("generator -> valid program P; S = random subset of its whole simple statements (assignments, calls, I/O, "
        "allocate, ... taken from the generator's statement kinds, unlabelled, so that P minus S is valid); every "
        "statement of S is hidden behind the conditional sentinel: free form '!$ ' (any indentation), continued over "
        "1-2 lines with '!$ &', '!$&' or '!$ ' on the continuation lines; fixed form '!$', 'c$', 'C$' or '*$' in "
        "columns 1-2 with the label in columns 3-5 and continuation lines carrying the sentinel and a mark in column "
        "6; genuine directives (!$omp, !$OMP, !$acc, c$omp) are interleaved. Oracles: enabled -> shape(tree) == "
        "shape(tree(P)) and the directives stay comments; disabled (default) with comments ignored -> shape(tree) == "
        "shape(tree(P minus S)). In 30% of the cases a run of whole statements (sentinel lines included) is moved into "
        "a file and replaced by an INCLUDE line, and both oracles are applied to the including source (the nested "
        "reader has to treat conditional lines and the source form like the main one). non-trivial = |S| >= 2; "
        "distinct by SHA-1 of text")
ASSUMPTIONS = ["statements in S are whole, unlabelled simple statements whose removal leaves a valid program"]
DECIDING_MONITORS = ("sentinel_lines",)

FOLD = ShapeOpts(fold_all=True, prune_empty=True)
OMP_DIRECTIVES_FREE = ["!$omp parallel do", "!$OMP END PARALLEL", "!$acc loop", "  !$omp barrier", "!$omp& shared(a)"]
OMP_DIRECTIVES_FIXED = ["!$omp parallel do", "c$omp end parallel", "*$omp barrier", "C$OMP ATOMIC", "!$acc loop"]


def make_payload(rng, idx, tier):
    P, meta = gen_program(rng, tier, size=rng.choice([0.5, 1.0, 1.0, 1.5]))
    meta["sel_seed"] = rng.getrandbits(32)
    meta["form"] = rng.choice(["free", "free", "fixed"])
    # a run of whole statements (sentinel lines among them) moved into an INCLUDE file: the nested reader must
    # treat conditional lines like the main one
    meta["inc"] = rng.random() < 0.3
    return program_payload(P, **meta)


def select(P, r):
    """whole simple statements; labelled ones too when the label fits behind a fixed-form sentinel (<= 3 digits) and
    the statement does not terminate a DO loop (role None)"""
    out = set()
    for i, s in enumerate(P.stmts):
        if s.role is not None or s.cname:
            continue
        if "simple" in s.flags and not s.label and r.random() < 0.35:
            out.add(i)
        elif s.label and len(s.label) <= 3 and s.kind in ("assign", "continue") and r.random() < 0.5:
            out.add(i)
    return out


def render_free(P, S, r):
    lines = []
    nsent = 0
    starts = []
    for i, s in enumerate(P.stmts):
        starts.append(len(lines))
        ind = "  " * s.depth
        text = s.src()
        if i in S:
            pre = r.choice(["!$ ", "  !$ ", "!$  ", ind + "!$ "])
            spans = lex_spans(text)
            pts = [a for (_, _, a, _) in spans[1:]]
            # points inside character literals (not next to a quote, so that no doubled quote is split)
            inlit = [k for (tok, cls, a, b) in spans if cls == "S" and b - a >= 5
                     for k in range(a + 2, b - 1) if text[k - 1] not in "'\"" and text[k] not in "'\""]
            if inlit and r.random() < 0.35:
                pts = pts + r.sample(inlit, min(2, len(inlit)))
            if pts and r.random() < 0.4:
                k = r.randint(1, min(2, len(pts)))
                cuts = sorted(set(r.sample(pts, k)))
                prev = 0
                pieces = []
                for c in cuts:
                    pieces.append(text[prev:c])
                    prev = c
                pieces.append(text[prev:])
                for j, p in enumerate(pieces):
                    last = j == len(pieces) - 1
                    chr_next = (not last) and cuts[j] in inlit          # this line ends inside a literal
                    chr_prev = j > 0 and cuts[j - 1] in inlit           # this line starts inside a literal
                    if j == 0:
                        lines.append(pre + p + ("&" if not last else ""))
                    else:
                        if r.random() < 0.3:
                            lines.append(r.choice(["  ! an ordinary comment", "", "   !x"]))
                        if chr_prev:
                            cpre = r.choice(["!$ &", "  !$ &", "!$&", "!$      &"])     # the literal resumes right after '&'
                        else:
                            cpre = r.choice(["!$ &", "!$& ", "!$ ", "  !$ & ", "!$&", "!$      "])
                        lines.append(cpre + p + ("" if last else ("&" if chr_next else " &")))
                    nsent += 1
            else:
                lines.append(pre + text)
                nsent += 1
        else:
            lines.append(ind + text)
        if r.random() < 0.08:
            lines.append(r.choice(OMP_DIRECTIVES_FREE))
    return lines, nsent, starts


def render_fixed(P, S, r):
    lines = []
    nsent = 0
    starts = []
    for i, s in enumerate(P.stmts):
        starts.append(len(lines))
        text = s.src()
        label = ""
        if s.label:
            label = s.label
            text = text[len(s.label):].lstrip()
        body = " " * min(s.depth, 4) + text
        chunks = [body[k:k + 60] for k in range(0, len(body), 60)] or [""]
        # never let a chunk end in a blank
        fixed_chunks = []
        carry = ""
        for c in chunks:
            c = carry + c
            carry = ""
            while c.endswith(" ") and len(c) > 1:
                carry = c[-1] + carry
                c = c[:-1]
            fixed_chunks.append(c)
        if carry.strip():
            fixed_chunks.append(carry)
        elif carry and fixed_chunks:
            pass
        sent = r.choice(["!$", "c$", "C$", "*$"]) if i in S and len(label) <= 3 else None
        for j, c in enumerate(fixed_chunks):
            if j == 0:
                if sent:
                    lab3 = label.rjust(3) if r.random() < 0.5 else label.ljust(3)
                    lines.append(sent + lab3 + r.choice([" ", " ", "0"]) + c)
                    nsent += 1
                else:
                    lines.append(label.ljust(5) + " " + c)
            else:
                mark = r.choice("&+1x*")
                if sent:
                    lines.append(sent + "   " + mark + c)
                    nsent += 1
                else:
                    lines.append("     " + mark + c)
        if r.random() < 0.08:
            lines.append(r.choice(OMP_DIRECTIVES_FIXED))
    return lines, nsent, starts


def reader(text, form, **opts):
    from fparser.common.sourceinfo import FortranFormat

    # the format is stated first so that the sentinel patterns are built for it
    rd = fp.FortranStringReader(text, **opts)
    rd.set_format(FortranFormat(form == "free", False))
    return rd


def parse(text, std, form, **opts):
    try:
        return fp.create(std)(reader(text, form, **opts)), None
    except SystemExit:
        return None, "reader called sys.exit"
    except fp.FortranSyntaxError as e:
        return None, str(e)[:160].replace("\n", " | ")
    finally:
        fp.SYMBOL_TABLES.clear()


def _known_key(v, text, form):
    """a rejection whose mechanism is a listed finding of the layout checks (decided from the text with the
    sentinels blanked out)"""
    import re
    from .. import layout

    if v is None or not v["key"].endswith("enabled:rejected") or form != "free":
        return v
    plain = re.sub(r"(?mi)^(\s*)!\$(?!omp|acc)", lambda m: m.group(1) + "  ", text)
    k = layout.known_rejection_key(plain)
    if k:
        v["key"] = k
    return v


def one(P, std, payload, mons=None):
    v, text, ns = _one(P, std, payload, mons)
    return _known_key(v, text, payload["form"]), text, ns


def _one(P, std, payload, mons=None):
    r = random.Random(payload["sel_seed"])
    form = payload["form"]
    S = select(P, r)
    if form == "fixed":
        # labels longer than 3 digits do not fit behind a sentinel
        S = {i for i in S}
    lines, nsent, starts = (render_free if form == "free" else render_fixed)(P, S, r)
    text = "\n".join(lines) + "\n"
    ref, err = parse(P.canonical(), std, "free")
    if ref is None:
        return None, text, 0
    if payload.get("inc") and len(P.stmts) >= 4:
        return one_included(P, std, payload, S, lines, nsent, starts, text, ref, r, mons)
    refshape = shape(ref, FOLD)
    minus = Program([Stmt.from_json(s.to_json()) for i, s in enumerate(P.stmts) if i not in S], P.std)
    mref, err = parse(minus.canonical(), std, "free")
    if mref is None:
        return None, text, 0       # removal not valid after all: outside the domain
    on, err = parse(text, std, form, include_omp_conditional_lines=True, ignore_comments=True)
    if on is None:
        return viol("enabled:rejected", "(%s) with conditional lines enabled: %s" % (form, err)), text, len(S)
    a = shape(on, FOLD)
    if a != refshape:
        return viol("enabled:tree-differs", "(%s) %s" % (form, first_diff(refshape, a))), text, len(S)
    off, err = parse(text, std, form, ignore_comments=True)
    if off is None:
        return viol("disabled:rejected", "(%s) with conditional lines disabled (default): %s" % (form, err)), text, len(S)
    b, m = shape(off, FOLD), shape(mref, FOLD)
    if b != m:
        return viol("disabled:tree-differs", "(%s) %s" % (form, first_diff(m, b))), text, len(S)
    # genuine directives stay comments when enabled
    onc, err = parse(text, std, form, include_omp_conditional_lines=True, ignore_comments=False)
    if onc is None:
        return viol("enabled-comments-kept:rejected", "(%s) %s" % (form, err)), text, len(S)
    want = [l.strip() for l in text.split("\n") if l.strip().lower()[1:6] in ("$omp ", "$omp&", "$acc ") or l.strip().lower()[1:5] in ("$omp", "$acc")]
    got = [str(c).strip() for c in fp.walk(onc, fp.F03.Comment) if str(c).strip()]
    got = [g for g in got if g.lower()[1:5] in ("$omp", "$acc")]
    if sorted(got) != sorted(want):
        return viol("enabled:directive-not-a-comment", "(%s) directive comments %r, expected %r" % (form, got[:4], want[:4])), text, len(S)
    if mons is not None:
        mons["sentinel_lines"] += nsent
    return None, text, len(S)


def one_included(P, std, payload, S, lines, nsent, starts, text, ref, r, mons):
    """lines of statements a..b-1 go to a file; an INCLUDE line takes their place"""
    import os
    import shutil
    import tempfile

    form = payload["form"]
    n = len(P.stmts)
    a = r.randrange(1, n - 1)
    b = r.randrange(a + 1, min(n - 1, a + 10) + 1)
    la, lb = starts[a], (starts[b] if b < n else len(lines))
    name = r.choice(["omp_part.inc", "cond.h", "Body.F90", "old.f"])
    incl = ("      " if form == "fixed" else "  ") + r.choice(["include", "INCLUDE", "Include"]) + " '" + name + "'"
    main = "\n".join(lines[:la] + [incl] + lines[lb:]) + "\n"
    body = "\n".join(lines[la:lb]) + "\n"
    shown = "! ---- main\n" + main + "! ---- " + name + "\n" + body
    refshape = shape(ref, FOLD)
    minus = Program([Stmt.from_json(s.to_json()) for i, s in enumerate(P.stmts) if i not in S], P.std)
    mref, err = parse(minus.canonical(), std, "free")
    if mref is None:
        return None, shown, 0
    work = tempfile.mkdtemp(prefix="vfc15_")
    try:
        with open(os.path.join(work, name), "w") as f:
            f.write(body)
        on, err = parse(main, std, form, include_omp_conditional_lines=True, ignore_comments=True, include_dirs=[work])
        if on is None:
            return viol("included:enabled:rejected", "(%s) conditional lines enabled, statements %d..%d in an include file: %s" % (form, a, b - 1, err)), shown, len(S)
        g = shape(on, FOLD)
        if g != refshape:
            return viol("included:enabled:tree-differs", "(%s) %s" % (form, first_diff(refshape, g))), shown, len(S)
        off, err = parse(main, std, form, ignore_comments=True, include_dirs=[work])
        if off is None:
            return viol("included:disabled:rejected", "(%s) %s" % (form, err)), shown, len(S)
        g, m = shape(off, FOLD), shape(mref, FOLD)
        if g != m:
            return viol("included:disabled:tree-differs", "(%s) %s" % (form, first_diff(m, g))), shown, len(S)
    finally:
        shutil.rmtree(work, ignore_errors=True)
    if mons is not None:
        mons["sentinel_lines"] += nsent
        mons["included_runs"] = mons.get("included_runs", 0) + 1
    return None, shown, len(S)


def check_raw(payload):
    """pinned reproducer: text (+ include files) against the reference text, conditional lines enabled"""
    import os
    import shutil
    import tempfile

    std, form = payload["std"], payload["form"]
    viols = []
    work = tempfile.mkdtemp(prefix="vfc15_")
    try:
        for name, body in payload.get("files", {}).items():
            with open(os.path.join(work, name), "w") as f:
                f.write(body)
        ref, err = parse(payload["ref_on"], std, "free", ignore_comments=True)
        on, err = parse(payload["text"], std, form, include_omp_conditional_lines=True, ignore_comments=True, include_dirs=[work])
        if on is None:
            viols.append(viol(payload.get("key", "enabled:rejected"), err))
        elif shape(on, FOLD) != shape(ref, FOLD):
            viols.append(viol(payload.get("key", "enabled:tree-differs"), first_diff(shape(ref, FOLD), shape(on, FOLD))))
    finally:
        shutil.rmtree(work, ignore_errors=True)
    return {"violations": viols, "digests": [], "monitors": {"sentinel_lines": 1}, "tally": {}}


def check(payload):
    if payload.get("mode") == "raw":
        return check_raw(payload)
    P = payload_program(payload)
    std = payload["std"]
    viols, digs = [], []
    mons = {"sentinel_lines": 0, "included_runs": 0}
    v, text, ns = one(P, std, payload, mons)
    if v is None:
        if ns >= 2:
            digs.append(digest(text, std))
    else:
        key = v["key"]

        def still(Q):
            w, _, _ = one(Q, std, payload)
            return w is not None and w["key"] == key

        Q = shrink_program(P, still, budget=60)
        w, qtext, _ = one(Q, std, payload)
        v["shrunk"] = {"source": qtext, "detail": w["detail"] if w else None}
        v["payload"] = dict(payload, program=Q.to_json())
        viols.append(v)
    return {"violations": viols, "digests": digs, "monitors": mons, "tally": {"form": [payload["form"]], "variant": ["included" if payload.get("inc") else "inline"]},
            "sample": {"form": payload["form"], "text": text[:700]}}
