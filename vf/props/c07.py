"""C07 a syntax error is reported at the offending statement's line (fault enumeration)."""
import re
import random

from .. import fp, layout, monitors
from ..common import payload_program, program_payload, digest, free_reader
from ..gen.model import Stmt, Program
from .base import gen_program, viol

ID = "C07"
LEVEL = "fault_enumeration"
TIERS = {"quick": {"cases": 320, "wall": 100, "min_nontrivial": 3000},
         "thorough": {"cases": 6000, "wall": 1800, "min_nontrivial": 60000}}
RULE = ("for each generated valid program P: EVERY statement position (openers, closers, middles, labelled statements, "
        "statements inside every construct and unit kind) is replaced in turn by a garbage text from a fixed set verified "
        "at start-up to match no rule; layouts: canonical one-statement-per-line and one random free-form layout per "
        "program (continuations, comments and blank lines around and inside the garbage, garbage continued over 2-3 "
        "lines; in a third of the layouts comments and blank lines carry form feeds and other characters that "
        "str.splitlines() would take for line ends); comments ignored and retained; both standards. Oracle: FortranSyntaxError whose 'at line N' is the last "
        "physical line of the replaced statement and whose '>>>' text is that line as the reader stores it. non-trivial "
        "= a (program, position, garbage, layout) tuple; distinct by SHA-1 of the faulty source")
ASSUMPTIONS = ["free form only, as the property states", "the garbage strings match no Fortran statement (checked at start-up)"]
DECIDING_MONITORS = ("positions_checked",)
EXHAUSTIVE = {"quick": True, "thorough": True, "note": "exhaustive over statement positions of every generated program; programs and layouts are sampled"}

LAYOUT = dict(p_cont=0.3, comments=True, p_semi=0.0, p_case=0.0, max_breaks=2, p_cont_between=0.3)
GARBAGE = ["@ garbage @", "= = =", "1 2 3", "x = = 1", "( ( (", "end foo bar"]
_OK = []


def verify_garbage():
    if _OK:
        return
    for g in GARBAGE:
        for src in (g + "\n", "subroutine vf_s\n" + g + "\nend subroutine vf_s\n"):
            try:
                fp.parse(src, "f2008")
            except fp.FortranSyntaxError:
                continue
            except BaseException:
                continue
            raise RuntimeError("garbage %r is accepted by the parser" % g)
    _OK.append(True)


def make_payload(rng, idx, tier):
    P, meta = gen_program(rng, tier, size=rng.choice([0.5, 1.0, 1.0]))
    meta["layout_seed"] = rng.getrandbits(32)
    meta["ic"] = rng.random() < 0.5
    return program_payload(P, **meta)


def faulty(P, i, g):
    stmts = []
    for k, s in enumerate(P.stmts):
        if k == i:
            gs = Stmt("garbage", g)
            gs.depth = s.depth
            gs.unit = s.unit
            gs.oid = s.oid
            stmts.append(gs)
        else:
            stmts.append(s)
    return Program(stmts, P.std, P.meta)


def stored_line(line):
    return line.expandtabs().rstrip() if "\t" in line else line.rstrip()


ODD = ["\x0c", "\u2028", "\x85", "\x0b", "\x1c", "\x1d", "\x1e", "\u2029"]


def odd_separators(text, lseed):
    """Characters that str.splitlines() takes for line boundaries but that do not end a physical line of a source
    (only the newline does): put into full-line comments, and a form feed alone on blank lines (page breaks)."""
    rr = random.Random(lseed ^ 0x5BD1)
    ls = text.split("\n")
    for k, l in enumerate(ls):
        if l.lstrip().startswith("! ") and rr.random() < 0.5:
            ls[k] = l + " " + rr.choice(ODD) + " page"
        elif not l.strip() and rr.random() < 0.5:
            ls[k] = "\x0c"
    return "\n".join(ls)


def one(P, i, g, std, ic, lay, lseed):
    Q = faulty(P, i, g)
    if lay == 0:
        text = Q.canonical()
        last = i + 1
    else:
        text, info = layout.render(Q, random.Random(lseed), LAYOUT)
        last = info["stmt_last"][i]
        if lseed % 3 == 0:
            text = odd_separators(text, lseed)
    lines = text.split("\n")
    try:
        fp.create(std)(free_reader(text, ignore_comments=ic))
    except fp.FortranSyntaxError as e:
        m = re.match(r"at line (\d+)\n>>>(.*)\n", str(e))
        if not m:
            return viol("message-format", "position %d, garbage %r: message %r lacks 'at line N / >>>text'" % (i, g, str(e)[:120])), text
        n, shown = int(m.group(1)), m.group(2)
        if n != last:
            return viol("wrong-line", "statement %d (%s) replaced by %r ends on line %d, error names line %d (%r)" % (
                i, P.stmts[i].kind, g, last, n, shown)), text
        want = stored_line(lines[last - 1])
        if shown != want:
            return viol("wrong-text", "line %d quoted as %r, source line is %r" % (n, shown, want)), text
        return None, text
    except (monitors.StepBudgetExceeded, monitors.CaseTimeout):
        return "budget", text
    except BaseException as e:  # noqa
        if isinstance(e, KeyboardInterrupt):
            raise
        fr = fp.fparser_frames(e.__traceback__)
        return viol("other-exception:%s" % type(e).__name__, "position %d garbage %r: %s in %s" % (
            i, g, type(e).__name__, fr[-1][0] if fr else "?")), text
    finally:
        fp.SYMBOL_TABLES.clear()
    return viol("accepted", "statement %d (%s) replaced by %r: no error raised" % (i, P.stmts[i].kind, g)), text


def baseline_ok(P, std, ic, lay, lseed):
    """The un-faulted layout must parse; otherwise another property's finding
    (e.g. a construct name on its own continuation line) would be blamed on C07."""
    if lay == 0:
        text = P.canonical()
    else:
        text, _ = layout.render(P, random.Random(lseed), LAYOUT)
    try:
        fp.create(std)(free_reader(text, ignore_comments=ic))
        return True
    except BaseException:
        return False
    finally:
        fp.SYMBOL_TABLES.clear()


def check(payload):
    verify_garbage()
    P = payload_program(payload)
    std = payload["std"]
    lseed = payload.get("layout_seed", 0)
    ic = payload.get("ic", True)
    viols, digs = [], []
    mons = {"positions_checked": 0, "baseline_rejected_layouts": 0, "budget_exceeded": 0}
    lay_ok = {}
    tally = {"replaced_kind": [], "layout": []}
    seen = set()
    positions = payload.get("positions")
    rng = random.Random(lseed)
    for i in (positions if positions is not None else range(len(P.stmts))):
        g = GARBAGE[(i + lseed) % len(GARBAGE)] if payload.get("garbage") is None else payload["garbage"]
        for lay in payload.get("layouts", (0, 1)):
            icc = ic if lay else True
            if lay not in lay_ok:
                lay_ok[lay] = baseline_ok(P, std, icc, lay, lseed)
                if not lay_ok[lay]:
                    mons["baseline_rejected_layouts"] += 1
            if not lay_ok[lay]:
                continue
            v, text = one(P, i, g, std, icc, lay, lseed)
            if v == "budget":
                mons["budget_exceeded"] += 1
                continue
            mons["positions_checked"] += 1
            tally["replaced_kind"].append(P.stmts[i].kind)
            tally["layout"].append(lay)
            if v is None:
                digs.append(digest(text, std, ic))
            elif v["key"] not in seen:
                seen.add(v["key"])
                v["payload"] = dict(payload, positions=[i], garbage=g, layouts=[lay])
                v["shrunk"] = {"source": text}
                viols.append(v)
    n = mons["positions_checked"]
    return {"violations": viols, "digests": digs, "monitors": mons, "tally": tally, "evaluations": max(1, n),
            "sample": {"std": std, "positions": len(P.stmts), "source": P.canonical()[:600]}}
