"""C05 fixed-form source is recognised and parses like its free-form equivalent."""
import random

from .. import fp, layout, fixedform
from ..common import payload_program, program_payload, digest, parse_monitored, stream_monitor
from ..canon import shape, ShapeOpts, first_diff
from .base import gen_program, viol, shrink_program

ID = "C05"
LEVEL = "exploration"
TIERS = {"quick": {"cases": 2400, "wall": 100, "min_nontrivial": 1200},
         "thorough": {"cases": 60000, "wall": 1800, "min_nontrivial": 12000}}
RULE = ("generator -> valid program P rendered in fixed form (labels anywhere in columns 1-5, continuation mark from "
        "'&+$*123456789xX.#', wrap column in {40,50,60,72} with extra random breaks, statements cut at arbitrary "
        "characters incl. inside names and character literals, comment lines C/c/*/! between statements and between "
        "continuation lines, inline ! comments, ';' joins, blank or '0' in column 6 of initial lines, a break right after "
        "the leading tokens, labels with a blank between their digits); one case in five is read from a file named "
        "*.f/.for/.F/.f77/.ftn through FortranFileReader. Oracle: the "
        "reader's detected format is fixed, and shape(tree(F(P))) == shape(tree(free(P))) (case-folded outside "
        "character literals). Detector-only cases: random free-form renderings whose first statement starts in columns "
        "1-5 must be detected as free form. non-trivial = rendering with >=1 continuation line; distinct by SHA-1 of text")
ASSUMPTIONS = ["text beyond column 72 and tabs in the label field are not generated (layout-dependent by the standard itself)",
               "a physical line is never cut so that it ends in a blank or '&' (right-stripping / free-form look-alike are separate known limits)"]
DECIDING_MONITORS = ("fixed_renderings", "detector_cases")

FOLD = ShapeOpts(fold_all=True, prune_empty=True)
FIXED = [
    dict(wrap=72, comments=True), dict(wrap=40, comments=True, p_between=0.3), dict(wrap=60, comments=False, p_semi=0.15),
    dict(wrap=50, comments=True, p_extra_break=0.4), dict(wrap=72, comments=False, p_zero_col6=0.3),
    dict(wrap=72, comments=True, label_align="right", p_inline=0.2),
]


def make_payload(rng, idx, tier):
    P, meta = gen_program(rng, tier, size=rng.choice([0.5, 1.0, 1.0]))
    meta["layout_seed"] = rng.getrandbits(32)
    if rng.random() < 0.25:
        meta["mode"] = "detect"
    else:
        meta["mode"] = "fixed"
        meta["li"] = rng.randrange(len(FIXED))
        # one case in five reads the rendering from a file whose extension says fixed form (FortranFileReader decides
        # the form from the name, the string reader from the content)
        meta["ext"] = rng.choice([".f", ".for", ".F", ".f77", ".ftn", ".FOR"]) if rng.random() < 0.2 else None
    return program_payload(P, **meta)


def one(P, std, payload):
    if payload["mode"] == "detect":
        text, info = layout.render(P, random.Random(payload["layout_seed"]),
                                   dict(comments=True, p_cont=0.2, indent="random", indent_max=5, p_blank=0.05))
        rd = fp.FortranStringReader(text)
        if not rd.format.is_free:
            first = next((l for l in text.split("\n") if l.strip() and not l.lstrip().startswith("!")), "")
            key = "free-not-detected"
            if first[:1] in "cC*":
                key = "free-not-detected:first-statement-starts-with-c-or-star"
            return viol(key, "free-form source whose first statement %r starts in column %d detected as %s" % (
                first[:40], len(first) - len(first.lstrip()) + 1, rd.format.mode)), text
        return None, text
    o = FIXED[payload["li"]]
    text, info = fixedform.render(P, random.Random(payload["layout_seed"]), o)
    tmpdir = None
    if payload.get("ext"):
        import os
        import tempfile

        tmpdir = tempfile.mkdtemp(prefix="vfc05_")
        path = os.path.join(tmpdir, "unit" + payload["ext"])
        with open(path, "w") as f:
            f.write(text)
        rd = fp.FortranFileReader(path, ignore_comments=True)
        import shutil

        shutil.rmtree(tmpdir, ignore_errors=True)     # the reader has read the file
    else:
        rd = fp.FortranStringReader(text, ignore_comments=True)
    if not rd.format.is_fixed:
        import re

        key = "fixed-not-detected"
        if re.search(r"^ {1,4}!", text, re.M):
            key = "fixed-not-detected:bang-comment-in-columns-2-5"
        elif re.search(r"&[ ]*$", text, re.M):
            key = "fixed-not-detected:line-ends-in-ampersand"
        return viol(key, "fixed-form rendering detected as %s" % rd.format.mode), text
    ref = parse_monitored(P.canonical(), std, conserve=False)
    if ref.error is not None:
        return None, text
    sm = stream_monitor()
    sm.watch(rd)
    try:
        tree = fp.create(std)(rd)
    except fp.FortranSyntaxError as e:
        key = "fixed-rejected"
        if o.get("p_zero_col6") and any(len(l) > 5 and l[5] == "0" for l in text.split("\n")):
            key = "zero-in-column-6-taken-as-continuation"
        return viol(key, "fixed-form rendering rejected: %s" % str(e)[:160].replace("\n", " | ")), text
    except SystemExit:
        return viol("fixed-systemexit", "reader called sys.exit on a fixed-form rendering"), text
    finally:
        sm.reader = None
        fp.SYMBOL_TABLES.clear()
    a, b = shape(ref.tree, FOLD), shape(tree, FOLD)
    if a != b:
        key = "fixed-tree-differs"
        if o.get("p_zero_col6") and any(len(l) > 5 and l[5] == "0" for l in text.split("\n")):
            key = "zero-in-column-6-taken-as-continuation"
        return viol(key, first_diff(a, b)), text
    return None, text


def check_raw(payload):
    std = payload["std"]
    vs = []
    rd = fp.FortranStringReader(payload["fixed_text"], ignore_comments=True)
    if not rd.format.is_fixed:
        vs.append(viol(payload.get("key_detect", "fixed-not-detected"), "detected as %s" % rd.format.mode))
    else:
        ref = parse_monitored(payload["free_text"], std, conserve=False)
        try:
            tree = fp.create(std)(rd)
            a, b = shape(ref.tree, FOLD), shape(tree, FOLD)
            if a != b:
                vs.append(viol(payload.get("key", "fixed-tree-differs"), first_diff(a, b)))
        except (fp.FortranSyntaxError, SystemExit) as e:
            vs.append(viol(payload.get("key", "fixed-rejected"), str(e)[:160]))
        finally:
            fp.SYMBOL_TABLES.clear()
    return {"violations": vs, "digests": [], "monitors": {"fixed_renderings": 1, "detector_cases": 1}, "tally": {}}


def check(payload):
    if payload.get("mode") == "raw":
        return check_raw(payload)
    P = payload_program(payload)
    std = payload["std"]
    viols, digs = [], []
    mons = {"fixed_renderings": 0, "detector_cases": 0}
    tally = {"mode": [payload["mode"]]}
    v, text = one(P, std, payload)
    mons["detector_cases" if payload["mode"] == "detect" else "fixed_renderings"] += 1
    if v is None:
        if payload["mode"] == "detect" or any(len(l) > 5 and l[:5] == "     " and l[5] not in " 0" for l in text.split("\n")):
            digs.append(digest(text, std))
    else:
        key = v["key"]

        def still(Q):
            w, _ = one(Q, std, payload)
            return w is not None and w["key"] == key

        Q = shrink_program(P, still, budget=80)
        w, qtext = one(Q, std, payload)
        v["shrunk"] = {"source": qtext, "detail": w["detail"] if w else None}
        v["payload"] = dict(payload, program=Q.to_json())
        viols.append(v)
    return {"violations": viols, "digests": digs, "monitors": mons, "tally": tally,
            "sample": {"mode": payload["mode"], "text": text[:800]}}
