"""C10 well-formed tree with consistent navigation."""
import random

from ..common import parse_monitored, payload_program, program_payload, digest
from ..canon import wellformed
from .base import gen_program, viol, shrink_program
from ..decorate import insert_comments
from .. import fp

ID = "C10"
LEVEL = "exploration"
TIERS = {"quick": {"cases": 1500, "wall": 80, "min_nontrivial": 300},
         "thorough": {"cases": 40000, "wall": 1200, "min_nontrivial": 5000}}
RULE = ("generator -> valid program (a third of the comment-free sources carry two extra statements with 36-entry comma "
        "lists of repeated entries); trees of parse(P) and of the re-parse of str(tree), std in {f2003,f2008}, comments "
        "dropped / kept / directives processed; own structural traversal (content/items through tuples and lists) "
        "checks: node reached once, parent == structural parent, root.parent is None, get_root() is root, walk() "
        "yields exactly the reachable nodes once in depth-first order, statements yielded by walk print in the order "
        "of str(root); non-trivial = tree with >= 50 nodes; distinct by SHA-1 of (source, config)")
ASSUMPTIONS = ["children are exactly what Base.children exposes (content or items), nested tuples/lists included"]
DECIDING_MONITORS = ("nodes_checked",)


def make_payload(rng, idx, tier):
    P, meta = gen_program(rng, tier)
    meta["comments_seed"] = rng.getrandbits(32)
    return program_payload(P, **meta)


CONFIGS = [dict(ignore_comments=True), dict(ignore_comments=False), dict(ignore_comments=False, process_directives=True)]


def stmt_order_problem(root):
    """Statements yielded by walk() print in the order of str(root)."""
    from ..fp import walk
    from fparser.two.utils import StmtBase

    out_lines = ["".join(l.split()) for l in str(root).split("\n") if l.strip()]
    pos = 0
    for n in walk(root, StmtBase):
        if getattr(n, "item", None) is None:
            continue  # statement built from a string inside another statement
        try:
            s = n.tofortran(isfix=False).strip() if hasattr(n, "tofortran") else str(n).strip()
        except Exception:
            s = str(n).strip()
        s = "".join(s.split("\n")[0].split())
        if not s:
            continue
        try:
            k = out_lines.index(s, pos)
        except ValueError:
            return "statement %r yielded by walk() is not at or after line %d of str(root)" % (s[:60], pos + 1)
        pos = k
    return None


def long_lists(P, src):
    """Two statements with comma lists of 36 entries, many of them equal, after the first assignment statement
    (canonical layout: line k holds statement k)."""
    lines = src.split("\n")
    for k, s in enumerate(P.stmts):
        if s.kind == "assign" and k < len(lines):
            ind = lines[k][:len(lines[k]) - len(lines[k].lstrip())]
            items = ", ".join(str(j % 3) for j in range(36))
            lines[k + 1:k + 1] = [ind + "vf_long = [%s]" % items, ind + "call vf_sub(%s)" % items.replace("0", "a(1)")]
            break
    return "\n".join(lines)


def one(P, std, ci, cseed, mons=None):
    opts = CONFIGS[ci]
    if opts["ignore_comments"]:
        src = P.canonical()
        if cseed % 3 == 0:
            src = long_lists(P, src)
    else:
        src, _ = insert_comments(P, random.Random(cseed))
    r = parse_monitored(src, std, conserve=False, **opts)
    if r.error is not None:
        return None, src, 0
    total = 0
    for which, tree in (("parse", r.tree), ("reparse", None)):
        if tree is None:
            r2 = parse_monitored(str(r.tree), std, conserve=False, **opts)
            if r2.error is not None:
                break
            tree = r2.tree
        probs, n = wellformed(tree)
        total += n
        if mons is not None:
            mons["nodes_checked"] += n
        if not probs:
            sp = stmt_order_problem(tree)
            if sp:
                probs = [("walk-statement-order", sp)]
        if probs:
            k, d = probs[0]
            return viol(k, "(%s, %s, %s) %s" % (std, opts, which, d)), src, total
    return None, src, total


def check(payload):
    if payload.get("mode") == "source":
        r = parse_monitored(payload["text"], payload["std"], conserve=False, **payload.get("opts", {}))
        vs = []
        if r.error is None:
            probs, n = wellformed(r.tree)
            if not probs:
                sp = stmt_order_problem(r.tree)
                probs = [("walk-statement-order", sp)] if sp else []
            if probs:
                vs.append(viol(probs[0][0], probs[0][1]))
        return {"violations": vs, "digests": [], "monitors": {"nodes_checked": 1}, "tally": {}}
    P = payload_program(payload)
    std = payload["std"]
    cseed = payload.get("comments_seed", 0)
    viols, digs = [], []
    mons = {"nodes_checked": 0}
    seen = set()
    for ci in range(len(CONFIGS)):
        v, src, n = one(P, std, ci, cseed, mons)
        if v is None:
            if n >= 100:
                digs.append(digest(src, std, ci))
            continue
        if v["key"] in seen:
            continue
        seen.add(v["key"])
        key = v["key"]

        def still(Q, ci=ci, key=key):
            w, _, _ = one(Q, std, ci, cseed)
            return w is not None and w["key"] == key

        Q = shrink_program(P, still)
        w, qsrc, _ = one(Q, std, ci, cseed)
        v["shrunk"] = {"source": qsrc, "detail": w["detail"] if w else None}
        v["payload"] = dict(payload, program=Q.to_json())
        viols.append(v)
    return {"violations": viols, "digests": digs, "tally": {"stmt_kinds": P.kinds()}, "monitors": mons,
            "sample": {"std": std, "source": P.canonical()[:1200]}}
