"""C16 symbol tables mirror the scoping structure and drive intrinsic resolution."""
import re
import random

from .. import fp, monitors
from ..common import digest, free_reader
from ..canon import iter_nodes
from .base import viol

ID = "C16"
LEVEL = "exploration"
TIERS = {"quick": {"cases": 3000, "wall": 100, "min_nontrivial": 1500},
         "thorough": {"cases": 60000, "wall": 1800, "min_nontrivial": 12000}}
RULE = ("special-purpose generator: scope trees of depth <= 5 (modules, submodules, main program with or without PROGRAM "
        "statement, external subprograms, block data at top level; contained subprograms, internal subprograms and "
        "named/unnamed BLOCK constructs nested, BLOCKs placed inside IF, SELECT, block DO and non-block labelled DO); "
        "every scope declares random intrinsic-typed variables, some named like intrinsic functions (sin, max, len, "
        "...), and USEs random modules (plain, ONLY lists mixing generic specs, names and renames, rename lists; local "
        "names they introduce hide intrinsics like declarations); units and modules may hold interface blocks whose "
        "bodies are scoping regions declaring dummy arguments named like intrinsics; every execution part references intrinsic names with a legal argument count, "
        "each reference tagged with a unique integer so that it can be found again. Ground truth by construction. "
        "Oracles: the forest read from SYMBOL_TABLES (lookup, children, parent, name, str) equals the scope tree "
        "(unnamed BLOCKs matched by position); each table holds exactly the declared symbols and used modules; a tagged "
        "reference is an Intrinsic_Function_Reference (and printed in upper case) iff no declaration of that name is "
        "visible in its own or a host scope; M-SCOPE: no duplicate live child, depth 0 afterwards. non-trivial = >=3 "
        "scopes and >=4 references; distinct by SHA-1 of source")
ASSUMPTIONS = ["shadowing names are declared with intrinsic types only, as the property states", "derived types are not generated here"]
DECIDING_MONITORS = ("references_checked", "tables_checked")

SHADOW = [("sin", 1), ("cos", 1), ("max", 2), ("min", 2), ("abs", 1), ("sqrt", 1), ("len", 1), ("size", 1), ("mod", 2),
          ("exp", 1), ("real", 1), ("int", 1), ("sum", 1), ("nint", 1), ("dble", 1), ("alog", 1), ("float", 1)]
PLAIN = ["va", "vb", "vc", "vd", "ve", "wx", "wy", "wz"]
TYPES = ["integer", "real", "logical", "double precision", "complex", "character(len=4)", "real(kind=8)", "integer*8"]


class Scope:
    def __init__(self, kind, name):
        self.kind, self.name = kind, name
        self.decls, self.uses, self.children = [], [], []
        self.imports = set()
        self.table = kind not in ("blockdata",)


class Gen:
    def __init__(self, seed, std):
        self.r = random.Random(seed)
        self.std = std
        self.lines = []
        self.refs = []     # (tag, name, expected_intrinsic)
        self.tag = 1000
        self.uid = 0
        self.labels = 100
        self.nscopes = 0

    def nm(self, p):
        self.uid += 1
        c = self.r.random()
        n = "%s%d" % (p, self.uid)
        return n.upper() if c < 0.2 else (n.capitalize() if c < 0.4 else n)

    def emit(self, d, text):
        self.lines.append("  " * d + text)

    def decls(self, sc, d, visible):
        r = self.r
        for _ in range(r.randint(0, 3)):
            ty = r.choice(TYPES)
            names = []
            for _ in range(r.randint(1, 2)):
                if r.random() < 0.55:
                    n = r.choice(SHADOW)[0]
                else:
                    n = r.choice(PLAIN)
                if n in sc.decls or n in names or n in sc.imports:
                    continue
                names.append(n)
            if not names:
                continue
            spelled = [n.upper() if r.random() < 0.2 else n for n in names]
            ents = [s + ("(3)" if r.random() < 0.3 else "") for s in spelled]
            self.emit(d, "%s :: %s" % (ty, ", ".join(ents)))
            sc.decls.extend(names)

    def interfaces(self, sc, d):
        """interface blocks whose bodies are scoping regions of their own: dummy arguments named like intrinsics are
        declared there and must not leak into the host"""
        r = self.r
        if r.random() > 0.25:
            return
        gen = self.nm("gn") if r.random() < 0.4 else None
        self.emit(d, "interface" + (" " + gen if gen else ""))
        for _ in range(r.randint(1, 2)):
            kind = r.choice(["subroutine", "function"])
            name = self.nm("if")
            body = Scope(kind, name)
            sc.children.append(body)
            self.nscopes += 1
            dummies = []
            for _ in range(r.randint(1, 3)):
                n = r.choice(SHADOW)[0] if r.random() < 0.6 else r.choice(PLAIN)
                if n not in dummies:
                    dummies.append(n)
            self.emit(d + 1, "%s %s(%s)" % (kind, name, ", ".join(dummies)))
            for n in dummies:
                self.emit(d + 2, "%s :: %s" % (r.choice(["integer", "real", "logical"]), n.upper() if r.random() < 0.2 else n))
                body.decls.append(n)
            if kind == "function" and r.random() < 0.5:
                self.emit(d + 2, "real :: %s" % name)
                body.decls.append(name.lower())
            self.emit(d + 1, "end %s %s" % (kind, name))
        self.emit(d, "end interface" + (" " + gen if gen and r.random() < 0.5 else ""))

    def uses(self, sc, d):
        """USE statements; local names they introduce (only-names, the local side of renames) go to sc.imports: they
        hide an intrinsic of the same name like a declaration does, but are not symbols of the table"""
        r = self.r
        for _ in range(r.choice([0, 0, 1, 2])):
            m = "mod_%d" % r.randint(1, 4)
            c = r.random()
            ext = lambda: "ext_%d" % r.randint(1, 9)  # noqa: E731
            shadow = lambda: r.choice(SHADOW)[0]  # noqa: E731
            spell = lambda n: n.upper() if r.random() < 0.2 else n  # noqa: E731
            if c < 0.35:
                self.emit(d, "use %s" % m)
            elif c < 0.55:
                self.emit(d, "use %s, only: %s" % (m, ext()))
            elif c < 0.85:
                # only-list: generic specs, plain names (some named like intrinsics), renames
                items = []
                for _ in range(r.randint(1, 4)):
                    k = r.random()
                    if k < 0.25:
                        items.append(r.choice(["operator(.dot.)", "operator(+)", "assignment(=)", "operator(==)", "operator(.x.)"]))
                    elif k < 0.55:
                        n = shadow()
                        if n in sc.decls:
                            continue
                        items.append(spell(n))
                        sc.imports.add(n)
                    elif k < 0.75:
                        n = shadow()
                        if n in sc.decls:
                            continue
                        items.append("%s => %s" % (spell(n), ext()))
                        sc.imports.add(n)
                    elif k < 0.9:
                        items.append("loc_%d => %s" % (r.randint(1, 9), shadow()))     # hides nothing
                    else:
                        items.append(ext())
                if not items:
                    items = [ext()]
                self.emit(d, "use %s, only: %s" % (m, ", ".join(items)))
            else:
                n = shadow()
                if n in sc.decls:
                    self.emit(d, "use %s" % m)
                else:
                    self.emit(d, "use %s, %s => %s" % (m, spell(n), ext()))
                    sc.imports.add(n)
            if m not in sc.uses:
                sc.uses.append(m)

    def ref(self, visible):
        name, nargs = self.r.choice(SHADOW)
        self.tag += 1
        args = [str(self.tag)] + [self.r.choice(PLAIN) for _ in range(nargs - 1)]
        spelled = name.upper() if self.r.random() < 0.2 else name
        self.refs.append((self.tag, name, name not in visible))
        return "%s(%s)" % (spelled, ", ".join(args))

    def exec_part(self, sc, d, visible, depth_left):
        r = self.r
        for _ in range(r.randint(1, 4)):
            c = r.random()
            if c < 0.5:
                self.emit(d, "%s = %s + %s" % (r.choice(PLAIN), self.ref(visible), self.ref(visible)))
            elif c < 0.6:
                self.emit(d, "call ext_sub(%s)" % self.ref(visible))
            elif c < 0.7:
                self.emit(d, "if (%s > 0) %s = %s" % (self.ref(visible), r.choice(PLAIN), self.ref(visible)))
            elif c < 0.82 and self.std == "f2008" and depth_left > 0:
                self.block(sc, d, visible, depth_left - 1)
            else:
                self.wrapped(sc, d, visible, depth_left)

    def wrapped(self, sc, d, visible, depth_left):
        """a construct that makes the parser back-track, with statements (and maybe a BLOCK) inside"""
        r = self.r
        c = r.random()
        inner = lambda: (self.block(sc, d + 1, visible, depth_left - 1)  # noqa: E731
                         if self.std == "f2008" and depth_left > 0 and r.random() < 0.6
                         else self.emit(d + 1, "%s = %s" % (r.choice(PLAIN), self.ref(visible))))
        if c < 0.3:
            self.emit(d, "if (%s > 1) then" % self.ref(visible))
            inner()
            if r.random() < 0.5:
                self.emit(d, "else")
                inner()
            self.emit(d, "end if")
        elif c < 0.5:
            self.emit(d, "do ii = 1, %s" % self.ref(visible))
            inner()
            self.emit(d, "end do")
        elif c < 0.75:
            self.labels += 1
            l = self.labels
            self.emit(d, "do %d ii = 1, 3" % l)
            inner()
            if r.random() < 0.5:
                self.emit(d, "%d %s = %s" % (l, r.choice(PLAIN), self.ref(visible)))
            else:
                self.emit(d, "%d continue" % l)
        else:
            self.emit(d, "select case (%s)" % r.choice(PLAIN))
            self.emit(d, "case (1)")
            inner()
            self.emit(d, "case default")
            inner()
            self.emit(d, "end select")

    def block_pair(self, parent, d, visible):
        """two unnamed sibling BLOCKs whose BLOCK statements stand on the same source line (';'): their tables must
        not be confused with one another"""
        r = self.r
        a, b = Scope("block", None), Scope("block", None)
        parent.children.extend([a, b])
        self.nscopes += 2
        n1 = r.choice(SHADOW)[0]
        a.decls.append(n1)
        first = "block; integer :: %s; %s = %s; end block" % (n1, r.choice(PLAIN), self.ref(visible | {n1}))
        self.emit(d, first + "; block")
        self.decls(b, d + 1, visible)
        self.emit(d + 1, "%s = %s" % (r.choice(PLAIN), self.ref(visible | set(b.decls))))
        self.emit(d, "end block")

    def block(self, parent, d, visible, depth_left):
        r = self.r
        if r.random() < 0.12:
            return self.block_pair(parent, d, visible)
        name = self.nm("blk") if r.random() < 0.4 else None
        sc = Scope("block", name)
        parent.children.append(sc)
        self.nscopes += 1
        self.emit(d, (name + ": " if name else "") + "block")
        self.uses(sc, d + 1)
        self.decls(sc, d + 1, visible)
        vis = visible | set(sc.decls) | sc.imports
        self.exec_part(sc, d + 1, vis, depth_left)
        self.emit(d, "end block" + (" " + name if name else ""))

    def subprogram(self, parent, d, visible, depth_left, allow_contains=True):
        r = self.r
        kind = r.choice(["subroutine", "function"])
        name = self.nm("sp")
        sc = Scope(kind, name)
        parent.children.append(sc)
        self.nscopes += 1
        self.unit_body(sc, d, visible, depth_left, kind, name, allow_contains)
        return sc

    def unit_body(self, sc, d, visible, depth_left, kind, name, allow_contains=True):
        r = self.r
        self.emit(d, "%s %s(%s)" % (kind, name, r.choice(["", "va", "va, vb"])) if kind != "program" else "program " + name)
        self.uses(sc, d + 1)
        self.decls(sc, d + 1, visible)
        self.interfaces(sc, d + 1)
        vis = visible | set(sc.decls) | sc.imports
        self.exec_part(sc, d + 1, vis, depth_left)
        if allow_contains and depth_left > 0 and r.random() < 0.45:
            self.emit(d + 1, "contains")
            for _ in range(r.randint(1, 2)):
                self.subprogram(sc, d + 1, vis, depth_left - 1, allow_contains=False)
        self.emit(d, "end %s %s" % (kind, name))

    def generate(self):
        r = self.r
        top = []
        kinds = [r.choice(["module", "module", "subroutine", "function", "blockdata"] + (["submodule"] if self.std == "f2008" else []))
                 for _ in range(r.randint(0, 2))]
        main = r.random() < 0.6
        bare = main and r.random() < (0.3 if not kinds else 0.2)     # a PROGRAM-less main program, also after other units
        for k in kinds:
            if k in ("module", "submodule"):
                name = self.nm("mo")
                sc = Scope(k, name)
                top.append(sc)
                self.nscopes += 1
                self.emit(0, ("module %s" % name) if k == "module" else ("submodule (par_m) %s" % name))
                self.uses(sc, 1)
                self.decls(sc, 1, set())
                self.interfaces(sc, 1)
                vis = set(sc.decls) | sc.imports
                if r.random() < 0.8:
                    self.emit(1, "contains")
                    for _ in range(r.randint(1, 2)):
                        self.subprogram(sc, 1, vis, 3)
                self.emit(0, "end %s %s" % (k, name))
            elif k == "blockdata":
                name = self.nm("bd")
                sc = Scope("blockdata", name)
                self.emit(0, "block data %s" % name)
                self.emit(1, "integer :: sin, bdv")
                self.emit(1, "common /cblk/ bdv")
                self.emit(0, "end block data %s" % name)
            else:
                name = self.nm("ex")
                sc = Scope(k, name)
                top.append(sc)
                self.nscopes += 1
                self.unit_body(sc, 0, set(), 3, k, name)
        if main or not top:
            if bare:
                sc = Scope("program", "fparser2:main_program")
                top.append(sc)
                self.nscopes += 1
                self.decls(sc, 0, set())
                vis = set(sc.decls) | sc.imports
                self.exec_part(sc, 0, vis, 2)
                self.emit(0, "end")
            else:
                name = self.nm("pr")
                sc = Scope("program", name)
                top.append(sc)
                self.nscopes += 1
                self.unit_body(sc, 0, set(), 3, "program", name)
        return "\n".join(self.lines) + "\n", top


def exp_forest(scopes):
    def one(s):
        return (s.name.lower() if s.name else None, tuple(sorted(set(s.decls))), tuple(sorted(set(s.uses))),
                tuple(one(c) for c in s.children))
    return tuple(sorted((one(s) for s in scopes), key=lambda t: t[0]))


def got_forest():
    def parse_str(tb):
        txt = str(tb)
        m = re.search(r"Symbols:\n(.*?)Used modules:\n(.*?)===========", txt, re.S)
        syms = [x for x in m.group(1).split("\n") if x] if m else []
        uses = [x for x in m.group(2).split("\n") if x] if m else []
        return syms, uses

    def one(tb):
        syms, uses = parse_str(tb)
        return (tb.name, tuple(sorted(syms)), tuple(sorted(uses)), tuple(one(c) for c in tb.children))
    return tuple(sorted((one(fp.SYMBOL_TABLES.lookup(n)) for n in monitors.top_table_names()), key=lambda t: t[0]))


def compare_forest(e, g, path=""):
    """Returns (key, detail) or None; unnamed blocks matched by position."""
    if len(e) != len(g):
        en, gn = [x[0] for x in e], [x[0] for x in g]
        dup = [n for n in gn if n and gn.count(n) > 1]
        key = "table-count"
        if len(g) > len(e) and all((x is None) or x in gn for x in en):
            extra = [x for x in g if x[0] and x[0].startswith("block:")]
            if len(gn) - len(en) == sum(1 for x in g if x[0].startswith("block:") and not x[1] and not x[2] and not x[3]) - sum(1 for x in e if x[0] is None and not x[1] and not x[2] and not x[3]) or extra:
                key = "surplus-block-table"
        return key, "%s: expected tables %s, found %s" % (path or "top level", en, gn)
    for x, y in zip(e, g):
        nx, ny = x[0], y[0]
        if nx is None:
            if not ny.startswith("block:"):
                return "table-name", "%s: unnamed BLOCK expected, found table %r" % (path, ny)
        elif nx != ny:
            return "table-name", "%s: expected table %r, found %r" % (path, nx, ny)
        if x[1] != y[1]:
            return "table-symbols", "%s/%s: expected symbols %s, found %s" % (path, ny, x[1], y[1])
        if x[2] != y[2]:
            return "table-uses", "%s/%s: expected used modules %s, found %s" % (path, ny, x[2], y[2])
        r = compare_forest(x[3], y[3], path + "/" + ny)
        if r:
            return r
    return None


def make_payload(rng, idx, tier):
    return {"seed": rng.getrandbits(48), "std": rng.choice(["f2003", "f2008", "f2008"])}


def _tup(x):
    return tuple(_tup(i) for i in x) if isinstance(x, (list, tuple)) else x


def check_raw(payload):
    """pinned reproducer: source text and the expected table forest [(name|None, [symbols], [modules], [children])]"""
    std, src = payload["std"], payload["source"]
    viols = []
    fp.SYMBOL_TABLES.clear()
    with monitors.ScopeMonitor() as sm:
        try:
            fp.create(std)(free_reader(src))
        except fp.FortranSyntaxError as e:
            fp.SYMBOL_TABLES.clear()
            return {"violations": [viol("valid-program-rejected", str(e)[:200])], "digests": [], "monitors": {}, "tally": {}}
        dups = list(sm.dups)
    try:
        d = compare_forest(_tup(payload["expected"]), got_forest())
        if d:
            viols.append(viol(payload.get("key", d[0]), d[1]))
        elif dups:
            viols.append(viol(payload.get("key", "duplicate-live-child-table"), "second live child %r under %r" % (dups[0][1], dups[0][0])))
    finally:
        fp.SYMBOL_TABLES.clear()
    return {"violations": viols, "digests": [], "monitors": {"references_checked": 1, "tables_checked": 1}, "tally": {}}


def check(payload):
    if payload.get("mode") == "raw":
        return check_raw(payload)
    std = payload["std"]
    viols, digs = [], []
    mons = {"references_checked": 0, "tables_checked": 0, "scope_events": 0}
    g = Gen(payload["seed"], std)
    src, top = g.generate()
    fp.SYMBOL_TABLES.clear()
    with monitors.ScopeMonitor() as sm:
        try:
            tree = fp.create(std)(free_reader(src))
        except fp.FortranSyntaxError as e:
            return {"violations": [viol("valid-program-rejected", str(e)[:200].replace("\n", " | "), shrunk={"source": src})],
                    "digests": [], "monitors": mons, "tally": {}}
        mons["scope_events"] += sm.events
        dups = list(sm.dups)
    try:
        exp = exp_forest([s for s in top if s.table])
        got = got_forest()
        mons["tables_checked"] += g.nscopes
        d = compare_forest(exp, got)
        if d:
            viols.append(viol(d[0], d[1], shrunk={"source": src}))
        if monitors.scope_depth() != 0:
            viols.append(viol("scope-open-after-success", "current scope is %r after a successful parse" % fp.SYMBOL_TABLES.current_scope.name,
                              shrunk={"source": src}))
        # references
        out = str(tree)
        intr = set()
        icls = fp.F03.Intrinsic_Function_Reference
        for n in iter_nodes(tree):
            if isinstance(n, icls):
                m = re.match(r"\s*\w+\s*\(\s*(\d+)", str(n))
                if m:
                    intr.add(int(m.group(1)))
        bad = None
        for tag, name, expected in g.refs:
            mons["references_checked"] += 1
            if (tag in intr) != expected:
                bad = (tag, name, expected)
                break
            m = re.search(r"(\w+)\(%d\b" % tag, out)
            if m and expected != (m.group(1) == name.upper()) and name.upper() != name:
                pass
        if bad:
            tag, name, expected = bad
            viols.append(viol("intrinsic-resolution:" + ("shadowed-but-intrinsic" if not expected else "unshadowed-but-not-intrinsic"),
                              "reference %s(%d ...) should %sbe an intrinsic function reference" % (name, tag, "" if expected else "not "),
                              shrunk={"source": src}))
        if dups and not viols:
            viols.append(viol("duplicate-live-child-table", "enter_scope created a second live child %r under %r" % (dups[0][1], dups[0][0]),
                              shrunk={"source": src}))
    finally:
        fp.SYMBOL_TABLES.clear()
    if not viols and g.nscopes >= 3 and len(g.refs) >= 4:
        digs.append(digest(src, std))
    seen, out_v = set(), []
    for v in viols:
        if v["key"] not in seen:
            seen.add(v["key"])
            out_v.append(v)
    return {"violations": out_v, "digests": digs, "monitors": mons, "tally": {"std": [std]},
            "sample": {"std": std, "source": src[:900]}}
