"""C20 parsing effort stays polynomial (bounded growth of deterministic step counts)."""
from .. import fp, monitors
from ..common import digest, free_reader
from .base import viol

ID = "C20"
LEVEL = "exploration"
TIERS = {"quick": {"cases": 400, "wall": 100, "min_nontrivial": 300, "sizes": [1, 2, 4, 8, 16]},
         "thorough": {"cases": 800, "wall": 1800, "min_nontrivial": 600, "sizes": [1, 2, 4, 8, 16, 32, 64]}}
STEP_BUDGET = 3_000_000
CASE_WALL = 900
RULE = ("fixed catalogue of size-indexed input families (nesting: parentheses, array-element nests, IF, ELSE-IF chains in "
        "IF, block DO, labelled DO/CONTINUE, shared-label DO, SELECT CASE, WHERE, ASSOCIATE, BLOCK, component chains, "
        "nested array constructors, non-block labelled DO closed by action statements; repetition: n assignments, n "
        "labelled one-line loops, n-term sums/products/concats, n-way ELSE IF, n CASE blocks, n units, n continuation "
        "lines, n-argument calls; parenthesised operands nested to the left and to the right of each of 15 binary "
        "operators of every precedence level, nests of 3 unary operators, the same nests inside a subscript, an actual "
        "argument and an IF condition, mixed-operator nests, nested function/keyword arguments, sections and "
        "substrings) and, on the thorough tier, compositions of two families. Metric 1 = Base.__new__ "
        "invocations (M-NEW), metric 2 = Python calls into functions under fparser/ (sys.monitoring); wall time is "
        "recorded only. Violation: some doubling step with n >= 4 multiplies a metric by more than 2^3*1.25 (faster "
        "than cubic), or the budget of 3e6 constructor calls is exceeded below the size bound. non-trivial = a "
        "(family, size, std) measurement with n >= 4")
ASSUMPTIONS = ["'fixed low-degree polynomial' is read as degree <= 3 for every family", "counts are deterministic for a given source"]
DECIDING_MONITORS = ("measurements",)


def _prog(body, spec=""):
    return "program vf_p\n%s%s\nend program vf_p\n" % (spec, body)


def fam_parens(n):
    return _prog("x = " + "(" * n + "a" + ")" * n)


def fam_array_nest(n):
    return _prog("x = " + "a(" * n + "1" + ")" * n)


def fam_if_nest(n):
    return _prog("\n".join("if (c%d) then" % i for i in range(n)) + "\nx = 1\n" + "\n".join("end if" for _ in range(n)))


def fam_elseif_in_if(n):
    body = []
    for i in range(n):
        body.append("if (a%d) then\nx = %d\nelse if (b%d) then" % (i, i, i))
    body.append("y = 0")
    for i in range(n):
        body.append("end if")
    return _prog("\n".join(body))


def fam_do_nest(n):
    return _prog("\n".join("do i%d = 1, 2" % i for i in range(n)) + "\nx = 1\n" + "\n".join("end do" for _ in range(n)))


def fam_label_do_continue(n):
    return _prog("\n".join("do %d i%d = 1, 2" % (100 + i, i) for i in range(n)) + "\nx = 1\n"
                 + "\n".join("%d continue" % (100 + i) for i in reversed(range(n))))


def fam_shared_label_do(n):
    return _prog("\n".join("do 100 i%d = 1, 2" % i for i in range(n)) + "\nx = 1\n100 continue")


def fam_select_nest(n):
    return _prog("\n".join("select case (k%d)\ncase (1)" % i for i in range(n)) + "\nx = 1\n"
                 + "\n".join("end select" for _ in range(n)))


def fam_where_nest(n):
    return _prog("\n".join("where (m%d)" % i for i in range(n)) + "\na = 1\n" + "\n".join("end where" for _ in range(n)))


def fam_associate_nest(n):
    return _prog("\n".join("associate (q%d => r%d)" % (i, i) for i in range(n)) + "\nx = 1\n"
                 + "\n".join("end associate" for _ in range(n)))


def fam_block_nest(n):
    return _prog("\n".join("block" for i in range(n)) + "\nx = 1\n" + "\n".join("end block" for _ in range(n)))


def fam_component_chain(n):
    return _prog("x = a" + "".join("%%c%d" % i for i in range(n)))


def fam_ac_nest(n):
    return _prog("x = " + "[" * n + "1" + "]" * n)


def fam_implied_do_nest(n):
    s = "a(" + ", ".join("i%d" % i for i in range(n)) + ")"
    for i in range(n):
        s = "(%s, i%d = 1, 2)" % (s, i)
    return _prog("print *, " + s)


def fam_nonblock_do_action(n):
    return _prog("\n".join("do %d i%d = 1, 2" % (100 + i, i) for i in range(n)) + "\n"
                 + "\n".join("%d x%d = 1" % (100 + i, i) for i in reversed(range(n))))


def fam_n_assign(n):
    return _prog("\n".join("x%d = y%d + 1" % (i, i) for i in range(n)))


def fam_n_labelled_loops(n):
    return _prog("\n".join("do %d i = 1, 2\n%d x%d = i" % (100 + i, 100 + i, i) for i in range(n)))


def fam_n_sum(n):
    return _prog("x = " + " + ".join("a%d" % i for i in range(n + 1)))


def fam_n_product(n):
    return _prog("x = " + " * ".join("a%d" % i for i in range(n + 1)))


def fam_n_concat(n):
    return _prog("x = " + " // ".join("'s%d'" % i for i in range(n + 1)))


def fam_n_power(n):
    return _prog("x = " + " ** ".join("a%d" % i for i in range(n + 1)))


def fam_n_and(n):
    return _prog("x = " + " .and. ".join("a%d" % i for i in range(n + 1)))


def fam_n_elseif(n):
    return _prog("if (a) then\n" + "\n".join("else if (b%d) then\nx = %d" % (i, i) for i in range(n)) + "\nend if")


def fam_n_case(n):
    return _prog("select case (k)\n" + "\n".join("case (%d)\nx = %d" % (i, i) for i in range(n)) + "\nend select")


def fam_n_units(n):
    return "".join("subroutine s%d(a)\nx = a\nend subroutine s%d\n" % (i, i) for i in range(n))


def fam_n_continuation(n):
    return _prog("x = a0 &\n" + "".join("  + a%d &\n" % i for i in range(1, n)) + "  + b")


def fam_n_args(n):
    return _prog("call s(" + ", ".join("a%d + 1" % i for i in range(n)) + ")")


def fam_n_decl(n):
    return _prog("x = 1", "".join("integer :: v%d = %d\n" % (i, i) for i in range(n)))


def fam_n_contained(n):
    return "module m\ncontains\n" + "".join("subroutine s%d(a)\nx = a\nend subroutine s%d\n" % (i, i) for i in range(n)) + "end module m\n"


def fam_nested_calls(n):
    return _prog("x = " + "f(" * n + "1, 2" + ")" * n)


def fam_unary_chain(n):
    return _prog("x = " + "-(" * n + "a" + ")" * n)


def fam_format_groups(n):
    return _prog("100 format (" + "2(" * n + "i5" + ")" * n + ")")


# parenthesised operands nested to the left / to the right of every kind of operator, and nests of unary operators;
# the same nests inside a subscript, an actual argument and an IF condition
_BINOPS = {"pow": "**", "mul": "*", "div": "/", "add": "+", "sub": "-", "cat": "//", "eq": "==", "ne": "/=", "lt": ".lt.",
           "ge": ">=", "and": ".and.", "or": ".or.", "eqv": ".eqv.", "neqv": ".neqv.", "defop": ".myop."}
_UNOPS = {"not": ".not.", "plus": "+", "defun": ".inv."}


def _lnest(op, n):
    return "(" * n + "a" + (" %s b)" % op) * n


def _rnest(op, n):
    return ("(a %s " % op) * n + "b" + ")" * n


def _mk_op_families():
    fams = {}
    for key, op in _BINOPS.items():
        fams["lnest_" + key] = (lambda n, op=op: _prog("x = " + _lnest(op, n)))
        fams["rnest_" + key] = (lambda n, op=op: _prog("x = " + _rnest(op, n)))
    for key, op in _UNOPS.items():
        fams["unest_" + key] = (lambda n, op=op: _prog("x = " + ("%s (" % op) * n + "a" + ")" * n))
    for key in ("add", "and", "eq"):
        op = _BINOPS[key]
        fams["sub_lnest_" + key] = (lambda n, op=op: _prog("v(%s) = 1" % _lnest(op, n)))
        fams["arg_lnest_" + key] = (lambda n, op=op: _prog("call s(1, %s)" % _lnest(op, n)))
        fams["if_rnest_" + key] = (lambda n, op=op: _prog("if (%s) x = 1" % _rnest(op, n)))
    # mixed operators per level
    ops = [".and.", "+", "==", "//", "**", ".or.", "*"]
    fams["lnest_mixed"] = lambda n: _prog("x = " + "(" * n + "a" + "".join(" %s b)" % ops[i % len(ops)] for i in range(n)))
    fams["fn_arg_chain"] = lambda n: _prog("x = " + "f(1, " * n + "a" + ")" * n)
    fams["section_nest"] = lambda n: _prog("x = " + "a(1:" * n + "2" + ")" * n)
    fams["struct_call_chain"] = lambda n: _prog("x = a" + "".join("%%c%d(i)" % i for i in range(n)))
    fams["kw_arg_nest"] = lambda n: _prog("x = " + "f(k = " * n + "1" + ")" * n)
    fams["char_sub_nest"] = lambda n: _prog("x = " + "c(" * n + "1:2" + ")" * n)
    return fams


FAMILIES = {k[4:]: v for k, v in list(globals().items()) if k.startswith("fam_")}
FAMILIES.update(_mk_op_families())
F2008_ONLY = {"block_nest"}
KNOWN_EXPONENTIAL = {"nonblock_do_action": "nested-non-block-labelled-do"}


def measure(src, std):
    nm = monitors.NewMonitor.installed
    nm.reset()
    with monitors.CallsMonitor() as cm:
        try:
            fp.create(std)
            nm.reset()
            cm.count = 0
            fp.FortranStringReader  # noqa
            tree = fp.ParserFactory().create(std)(free_reader(src))
            ok = tree is not None
        except monitors.StepBudgetExceeded:
            return None, None, "budget"
        except RecursionError:
            # the interpreter's recursion limit, not a growth verdict: larger members are not measured
            return nm.count, cm.count, "recursion-limit"
        except fp.FortranSyntaxError as e:
            return nm.count, cm.count, "rejected: %s" % str(e)[:80].replace("\n", "|")
        finally:
            fp.SYMBOL_TABLES.clear()
    return nm.count, cm.count, "ok"


def make_payload(rng, idx, tier):
    names = sorted(FAMILIES)
    combos = []
    for f in names:
        for std in ("f2003", "f2008"):
            if f in F2008_ONLY and std == "f2003":
                continue
            combos.append((f, None, std))
    if tier == "thorough":
        nest = [f for f in names if f.endswith("_nest") or f in ("parens", "nested_calls", "lnest_and", "rnest_add", "unest_not")]
        for a in nest:
            for b in ("n_sum", "n_assign", "n_args"):
                combos.append((a, b, "f2008"))
    if idx >= len(combos):
        return None
    f, g, std = combos[idx]
    return {"family": f, "second": g, "std": std, "sizes": TIERS[tier]["sizes"]}


def compose(f, g, n):
    """family g's expression/statement placed inside family f's innermost body."""
    a = FAMILIES[f](n)
    b = FAMILIES[g](n)
    inner = b.split("\n")[1:-2]
    if "x = 1" in a:
        return a.replace("x = 1", "\n".join(inner), 1)
    if "a = 1" in a:
        return a.replace("a = 1", "a = " + " + ".join("b%d" % i for i in range(n + 1)), 1)
    return a.replace("x = ", "x = " + " + ".join("q%d" % i for i in range(n)) + " + ", 1)


def check(payload):
    f, g, std = payload["family"], payload.get("second"), payload["std"]
    viols, digs = [], []
    mons = {"measurements": 0}
    rows = []
    prev = None
    disagree = None
    name = f if not g else "%s+%s" % (f, g)
    known = KNOWN_EXPONENTIAL.get(f)
    for n in payload["sizes"]:
        src = compose(f, g, n) if g else FAMILIES[f](n)
        c1, c2, status = measure(src, std)
        mons["measurements"] += 1
        rows.append({"n": n, "new": c1, "calls": c2, "status": status})
        if status == "budget":
            viols.append(viol(known or "step-budget-exceeded:" + name,
                              "%s (%s): more than %d constructor calls at n=%d; counts so far %s" % (name, std, STEP_BUDGET, n, rows)))
            break
        if status == "recursion-limit":
            break
        if status.startswith("rejected"):
            # family text not accepted under this standard: not a growth verdict
            return {"inconclusive": "family %s rejected at n=%d under %s: %s" % (name, n, std, status), "violations": []}
        if n >= 4:
            digs.append(digest(name, n, std))
        if prev is not None and prev["n"] >= 4 and n == 2 * prev["n"]:
            r1 = c1 / max(1, prev["new"])
            r2 = c2 / max(1, prev["calls"])
            bad1, bad2 = r1 > 10.0, r2 > 10.0
            if bad1 and bad2:
                viols.append(viol(known or "superpolynomial-growth:" + name,
                                  "%s (%s): doubling n %d->%d multiplies constructor calls by %.1f and python calls by %.1f (limit 10): %s"
                                  % (name, std, prev["n"], n, r1, r2, rows)))
                break
            if bad1 != bad2:
                # one metric over, the other just under the limit: the next doubling decides
                disagree = "metrics disagree for %s at n=%d: %.1f vs %.1f" % (name, n, r1, r2)
            else:
                disagree = None
        prev = {"n": n, "new": c1, "calls": c2}
    if disagree and not viols:
        return {"inconclusive": disagree + " (unresolved at the largest size)", "violations": []}
    return {"violations": viols, "digests": digs, "monitors": mons, "evaluations": len(rows),
            "tally": {"family": [name]}, "sample": {"family": name, "std": std, "counts": rows}}
