"""C03 expression trees encode precedence and associativity."""
import random
import itertools

from .. import fp
from ..gen.expr import (ExprGen, text_of, paren_of, count_ops, has_defbin_with_dotted_right, REL_OPS,
                        text_has_defbin_dotted_right, ops_of)
from ..gen.model import to_src, to_strict
from ..gen.program import Env
from ..common import digest
from .base import viol

ID = "C03"
LEVEL = "exploration"
TIERS = {"quick": {"cases": 1600, "wall": 80, "min_nontrivial": 2000, "k": 2},
         "thorough": {"cases": 30000, "wall": 1500, "min_nontrivial": 50000, "k": 3}}
RULE = ("(a) bounded-exhaustive: every expression AST with <= K operator nodes (K=2 quick, 3 thorough) over 4 unary and "
        "23 binary operator spellings (defined unary, **, * /, unary/binary + -, //, 12 relational spellings, .not., "
        ".and., .or., .eqv., .neqv., defined binary), rendered with exactly the parentheses the grammar R701-R723 "
        "requires, leaves cycled through an operand alphabet (names, exponent/kind literals, strings whose content "
        "looks like operators, array elements, calls, components, constructors), blank-separated and compact; "
        "(b) random grammar derivations to depth 6; (c) the same expressions embedded as assignment right-hand side, IF "
        "condition, subscript and actual argument of a program unit. Oracle: fully parenthesised form of the tree "
        "(walk over binary/unary operator nodes and Parenthesis nodes) == that of the AST, and re-parsing str(tree) "
        "gives the same. non-trivial = >=1 operator; distinct by expression text + context")
ASSUMPTIONS = ["operator nodes are recognised structurally (BinaryOpBase/UnaryOpBase whose operator string is a Fortran "
               "operator), not by class name"]
ENUM_CASES = {"quick": 400, "thorough": 3000}
DECIDING_MONITORS = ("expressions_checked",)
EXHAUSTIVE = {"quick": True, "thorough": True,
              "note": "exhaustive only for sub-space (a): all ASTs with <=K operator nodes over the 27 operator spellings; "
                      "the random part (b),(c) is sampled"}

UN = [".neg.", "+", "-", ".not."]
BIN = ["**", "*", "/", "+", "-", "//"] + REL_OPS + [".and.", ".or.", ".eqv.", ".neqv.", ".x."]

LEVEL_OF_BIN = {"**": 9, "*": 8, "/": 8, "+": 7, "-": 7, "//": 6, ".and.": 3, ".or.": 2, ".eqv.": 1, ".neqv.": 1, ".x.": 0}
for _o in REL_OPS:
    LEVEL_OF_BIN[_o] = 5
LEVEL_OF_UN = {".neg.": 10, "+": 7, "-": 7, ".not.": 4}
# (min level of left child, min level of right child)
NEED_BIN = {0: (0, 1), 1: (1, 2), 2: (2, 3), 3: (3, 4), 5: (6, 6), 6: (6, 7), 7: (7, 8), 8: (8, 9), 9: (10, 9)}
NEED_UN = {10: 11, 7: 8, 4: 5}

LEAVES = ["a", "b2", "1", "2.5e-3", "1.0d+4", "x(i)", "y(i+1,j)", "f(a,-b)", "s%c", "s%t(2)%d", ".true.", "'p+q'",
          '"u**v"', "(1.0,-2.0)", "3_8", "1.5e+2_wp", "(/1,2/)", "[a,b]", "'(a+b)'", "z", "c_1", "'it''s'",
          ".false._4", "g()", "q(:)", "'a b'", "1.e5", ".5"]


def level(e):
    k = e[0]
    if k in ("leaf", "par"):
        return 11
    if k == "un":
        return LEVEL_OF_UN[e[1].lower()] if e[1].lower() in LEVEL_OF_UN else 10
    o = e[1].lower()
    return LEVEL_OF_BIN.get(o, 0)


def with_parens(e):
    """Insert 'par' nodes where the grammar requires parentheses."""
    k = e[0]
    if k == "leaf":
        return e
    if k == "par":
        return ("par", with_parens(e[1]))
    if k == "un":
        c = with_parens(e[2])
        if level(c) < NEED_UN[level(e)]:
            c = ("par", c)
        return ("un", e[1], c)
    l, r = with_parens(e[2]), with_parens(e[3])
    nl, nr = NEED_BIN[level(e)]
    if level(l) < nl:
        l = ("par", l)
    if level(r) < nr:
        r = ("par", r)
    return ("bin", e[1], l, r)


def enum_trees(k):
    """All operator trees with exactly k operator nodes; leaves are None."""
    if k == 0:
        yield None
        return
    for op in UN:
        for c in enum_trees(k - 1):
            yield ("un", op, c)
    for op in BIN:
        for kl in range(k):
            kr = k - 1 - kl
            for l in enum_trees(kl):
                for r in enum_trees(kr):
                    yield ("bin", op, l, r)


def fill(t, it):
    if t is None:
        return ("leaf", next(it))
    if t[0] == "un":
        return ("un", t[1], fill(t[2], it))
    return ("bin", t[1], fill(t[2], it), fill(t[3], it))


OPLIKE = ["ge", "or", "eq", "not", "lt", "and", "ne", "true"]
_ENUM = {}


def enumerated(K):
    if K not in _ENUM:
        out = []
        n = 0
        for k in range(1, K + 1):
            for t in enum_trees(k):
                it = itertools.cycle(LEAVES[(n * 7) % len(LEAVES):] + LEAVES[:(n * 7) % len(LEAVES)])
                out.append(with_parens(fill(t, it)))
                n += 1
        # operands spelled like the word of a dotted operator (legal names), K <= 2 only
        for k in range(1, min(K, 2) + 1):
            for t in enum_trees(k):
                it = itertools.cycle(OPLIKE[n % len(OPLIKE):] + OPLIKE[:n % len(OPLIKE)])
                out.append(with_parens(fill(t, it)))
                n += 1
        _ENUM[K] = out
    return _ENUM[K]


# ------------------------------------------------------------------- oracle
_UN_OPS = {"+", "-", ".not."}
_BIN_OPS = {"**", "*", "/", "+", "-", "//", "==", "/=", "<", "<=", ">", ">=", ".eq.", ".ne.", ".lt.", ".le.", ".gt.",
            ".ge.", ".and.", ".or.", ".eqv.", ".neqv."}


def _is_dotted(s):
    return len(s) > 2 and s[0] == "." and s[-1] == "." and s[1:-1].isalpha()


def tree_paren(n):
    from fparser.two.utils import BinaryOpBase, UnaryOpBase

    par_cls = getattr(fp.F03, "Parenthesis", None)
    if par_cls is not None and isinstance(n, par_cls):
        return "p[" + tree_paren(n.items[1]) + "]"
    if isinstance(n, BinaryOpBase) and len(n.items) == 3 and isinstance(n.items[1], str):
        o = n.items[1].lower()
        if o in _BIN_OPS or _is_dotted(o):
            return "(" + tree_paren(n.items[0]) + o + tree_paren(n.items[2]) + ")"
    if isinstance(n, UnaryOpBase) and len(n.items) == 2 and isinstance(n.items[0], str):
        o = n.items[0].lower()
        if o in _UN_OPS or _is_dotted(o):
            return "(" + o + tree_paren(n.items[1]) + ")"
    return str(n).replace(" ", "").lower()


def render(e, compact):
    if not compact:
        return to_src(text_of(e, " "))
    # compact: no blanks around non-dotted operators
    def t(x):
        k = x[0]
        if k == "leaf":
            return x[1]
        if k == "par":
            return "(" + t(x[1]) + ")"
        if k == "un":
            sp = " " if x[1].startswith(".") else ""
            return x[1] + sp + t(x[2])
        sp = " " if x[1].startswith(".") else ""
        return t(x[2]) + sp + x[1] + sp + t(x[3])
    return to_src(t(e))


def _oplike_between_dots(e):
    """an operand spelled like an operator word with a dotted operator directly on each side"""
    flat = []

    def fl(x):
        k = x[0]
        if k == "leaf":
            flat.append(("leaf", x[1]))
        elif k == "par":
            flat.append(("open", "("))
            fl(x[1])
            flat.append(("close", ")"))
        elif k == "un":
            flat.append(("op", x[1]))
            fl(x[2])
        else:
            fl(x[2])
            flat.append(("op", x[1]))
            fl(x[3])

    fl(e)
    for i, (k, t) in enumerate(flat):
        if k == "leaf" and t.lower() in OPLIKE and 0 < i < len(flat) - 1:
            a, b = flat[i - 1], flat[i + 1]
            if a[0] == "op" and a[1].startswith(".") and b[0] == "op" and b[1].startswith("."):
                return True
    return False


def check_expr(e, text, context="expr"):
    """Returns violation dict or None."""
    from .. import monitors as _m

    if _m.NewMonitor.installed is not None:
        _m.NewMonitor.installed.reset()      # the step budget bounds one expression, not the 60 of a case
    exp = to_strict(paren_of(e)).lower()
    known = has_defbin_with_dotted_right(e) or text_has_defbin_dotted_right(text)
    oplike = _oplike_between_dots(e)
    try:
        if context == "expr":
            node = fp.F03.Expr(text)
        else:
            node = _embedded(text, context)
            if isinstance(node, dict):
                node["key"] = ("defined-binary-op-with-dotted-right" if known else ("operator-like-name-between-dotted-operators" if oplike else node["key"]))
                return node
    except fp.NoMatchError:
        return viol("defined-binary-op-with-dotted-right" if known else ("operator-like-name-between-dotted-operators" if oplike else "valid-expression-rejected"),
                    "Expr(%r) raised NoMatchError" % text, payload={"mode": "expr", "text": text, "expected": exp, "context": context, "known": known, "oplike": oplike})
    except Exception as err:
        fr = fp.fparser_frames(err.__traceback__)
        where = fr[-1][0] if fr else "?"
        return viol("expression-raises:%s@%s" % (type(err).__name__, where), "Expr(%r) raised %s in %s" % (text, type(err).__name__, where),
                    payload={"mode": "expr", "text": text, "expected": exp, "context": context, "known": known})
    got = tree_paren(node)
    if got != exp:
        return viol("defined-binary-op-with-dotted-right" if known else ("operator-like-name-between-dotted-operators" if oplike else "grouping-differs"),
                    "%r: expected %s got %s" % (text, exp, got), payload={"mode": "expr", "text": text, "expected": exp, "context": context, "known": known, "oplike": oplike})
    if context == "expr":
        s2 = str(node)
        try:
            n2 = fp.F03.Expr(s2)
            g2 = tree_paren(n2)
        except fp.NoMatchError:
            g2 = "<rejected>"
        if g2 != got:
            return viol("defined-binary-op-with-dotted-right" if known else "reparse-grouping-differs",
                        "%r printed as %r which groups as %s, not %s" % (text, s2, g2, got),
                        payload={"mode": "expr", "text": text, "expected": exp, "context": context, "known": known})
    return None


_WRAP = {
    "assign": ("subroutine vf_s(vf_a)\n  vf_lhs = %s\nend subroutine vf_s\n", "Assignment_Stmt", lambda n: n.items[2]),
    "if": ("subroutine vf_s(vf_a)\n  if (%s) then\n  end if\nend subroutine vf_s\n", "If_Then_Stmt", lambda n: n.items[0]),
    "subscript": ("subroutine vf_s(vf_a)\n  vf_lhs = vf_arr(%s)\nend subroutine vf_s\n", "Section_Subscript_List", None),
    "arg": ("subroutine vf_s(vf_a)\n  call vf_p(vf_q, %s)\nend subroutine vf_s\n", "Actual_Arg_Spec_List", lambda n: n.items[1]),
}


_PARSER = []


def _parser():
    if not _PARSER:
        _PARSER.append(fp.create("f2003"))
    return _PARSER[0]


def _embedded(text, context):
    tmpl, clsname, pick = _WRAP[context]
    src = tmpl % text
    try:
        tree = _parser()(fp.FortranStringReader(src))
    except fp.FortranSyntaxError as e:
        return viol("valid-expression-rejected", "in context %s: %r rejected: %s" % (context, text, str(e)[:100].replace("\n", "|")),
                    payload={"mode": "expr", "text": text, "context": context})
    cls = getattr(fp.F03, clsname)
    nodes = fp.walk(tree, cls)
    if context == "subscript":
        # a single subscript is not wrapped in a list: take the Part_Ref's second item
        pr = fp.walk(tree, fp.F03.Part_Ref)
        pr = [p for p in pr if str(p.items[0]).lower() == "vf_arr"]
        node = pr[0].items[1]
        if type(node).__name__.endswith("_List") and len(node.items) == 1:
            node = node.items[0]
        return node
    if not nodes:
        if context == "arg":
            cs = fp.walk(tree, fp.F03.Call_Stmt)
            return cs[0].items[1].items[1] if hasattr(cs[0].items[1], "items") else cs[0].items[1]
        raise RuntimeError("context node %s not found" % clsname)
    return pick(nodes[0])


def _arith_only(e):
    if any(o not in ("**", "*", "/", "+", "-") for o in ops_of(e)):
        return False

    def leaves(x):
        if x[0] == "leaf":
            yield x[1]
        elif x[0] == "par":
            yield from leaves(x[1])
        elif x[0] == "un":
            yield from leaves(x[2])
        else:
            yield from leaves(x[2])
            yield from leaves(x[3])

    return all(l[0].isalnum() and not any(ch in l for ch in "'\".:[") or l.isdigit() for l in leaves(e))


def make_payload(rng, idx, tier):
    K = TIERS[tier]["k"]
    n_enum_cases = 400 if tier == "quick" else 3000
    if idx < n_enum_cases:
        return {"mode": "enum", "k": K, "slice": [idx, n_enum_cases]}
    return {"mode": "random", "seed": rng.getrandbits(48), "n": 60}


def check(payload):
    _parser()
    viols, digs = [], []
    mons = {"expressions_checked": 0, "embedded_checked": 0}
    tally = {"ops": [], "contexts": []}
    n_eval = 0
    sample = None
    if payload["mode"] == "expr":
        # replay of a single expression
        e = payload.get("ast")
        text = payload["text"]
        ctx = payload.get("context", "expr")
        key = "defined-binary-op-with-dotted-right" if payload.get("known") else ("operator-like-name-between-dotted-operators" if payload.get("oplike") else "grouping-differs")
        try:
            node = fp.F03.Expr(text) if ctx == "expr" else _embedded(text, ctx)
            got = tree_paren(node) if not isinstance(node, dict) else "<rejected>"
        except fp.NoMatchError:
            got = "<rejected>"
        except Exception as err:
            fr = fp.fparser_frames(err.__traceback__)
            got = "<raised %s>" % type(err).__name__
            key = "expression-raises:%s@%s" % (type(err).__name__, fr[-1][0] if fr else "?")
        if got != payload.get("expected"):
            viols.append(viol(key, "%r: expected %s got %s" % (text, payload.get("expected"), got)))
        return {"violations": viols, "digests": [], "monitors": {"expressions_checked": 1}, "tally": tally}
    if payload["mode"] == "enum":
        all_e = enumerated(payload["k"])
        i0, n = payload["slice"]
        for j in range(i0, len(all_e), n):
            e = all_e[j]
            for compact in (False, True):
                text = render(e, compact)
                v = check_expr(e, text)
                mons["expressions_checked"] += 1
                n_eval += 1
                if v is None:
                    digs.append(digest(text))
                else:
                    viols.append(v)
            if sample is None:
                sample = {"expr": render(e, False), "expected": to_strict(paren_of(e)).lower()}
            if j % 5 == 0:
                ctx = ("assign", "if", "subscript", "arg")[(j // 5) % 4]
                text = render(e, False)
                if ctx == "subscript" and not _arith_only(e):
                    ctx = "assign"
                v = check_expr(e, text, ctx)
                mons["embedded_checked"] += 1
                tally["contexts"].append(ctx)
                n_eval += 1
                if v is None:
                    digs.append(digest(text, ctx))
                else:
                    viols.append(v)
    else:
        r = random.Random(payload["seed"])
        env = Env(r)
        eg = ExprGen(r, env, hostile=True, defined_ops=True)
        for _ in range(payload["n"]):
            e = eg.expr(r.randint(1, 6))
            if count_ops(e) == 0:
                continue
            compact = r.random() < 0.3
            text = render(e, compact)
            ctx = r.choice(["expr", "expr", "expr", "assign", "if", "arg"])
            v = check_expr(e, text, ctx)
            mons["expressions_checked"] += 1
            tally["contexts"].append(ctx)
            n_eval += 1
            if v is None:
                digs.append(digest(text, ctx))
            else:
                viols.append(v)
            if sample is None:
                sample = {"expr": text, "expected": to_strict(paren_of(e)).lower(), "context": ctx}
    # report each mechanism once per case
    seen, out = set(), []
    for v in viols:
        if v["key"] in seen:
            continue
        seen.add(v["key"])
        out.append(v)
    return {"violations": out, "digests": digs, "monitors": mons, "tally": tally, "evaluations": n_eval, "sample": sample}
