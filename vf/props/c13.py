"""C13 INCLUDE resolution is transparent; unresolved includes are kept."""
import os
import re
import random
import shutil
import tempfile

from .. import fp
from ..common import payload_program, program_payload, digest, stream_monitor
from ..canon import shape, ShapeOpts, first_diff
from .base import gen_program, viol

ID = "C13"
LEVEL = "exploration"
TIERS = {"quick": {"cases": 2000, "wall": 100, "min_nontrivial": 1200},
         "thorough": {"cases": 50000, "wall": 1800, "min_nontrivial": 12000}}
RULE = ("generator -> valid program P (one statement per line); a run of whole statements [a,b) - any boundaries, also "
        "inside constructs - is moved to a file and replaced by an INCLUDE line; optionally a nested include inside it "
        "and a second, disjoint one; include lines in mixed case with either quote kind, file names with upper case, "
        "dots, dashes and sub-directories; reader kind in {string, file}; comments kept or dropped. Oracles: (1) "
        "shape(tree(main+files)) == shape(tree(P)); (2) two directories holding different files of the same name: the "
        "tree reflects the first directory in include_dirs order, for both orders; (3) files absent and the moved run "
        "balanced (valid without it): Include_Stmt nodes exactly at the include positions and the INCLUDE lines "
        "re-emitted with the file name unchanged; (4) M-STREAM on the outermost reader (LIFO put-back, same object on "
        "re-read across include boundaries). non-trivial = split with b-a >= 2; distinct by SHA-1 of (main text, files, mode)")
ASSUMPTIONS = ["temporary include directories live under the system temp dir and are removed after each case",
               "an included file that contains no line proving free form is re-detected by the nested reader (C05's limit) and filed under that mechanism"]
DECIDING_MONITORS = ("splits_checked",)

FOLD = ShapeOpts(fold_all=True, prune_empty=True)
NAMES = ["inc1.inc", "Part_A.INC", "my-file.f90", "sub/dir.part.h", "x.y.z", "UPPER.F90", "inc_2.fi", "old.f", "legacy.for"]


def make_payload(rng, idx, tier):
    P, meta = gen_program(rng, tier, size=rng.choice([0.5, 1.0, 1.0]))
    if len(P.stmts) < 4:
        return None
    meta["split_seed"] = rng.getrandbits(32)
    meta["mode"] = rng.choice(["resolve", "resolve", "twodirs", "absent"])
    meta["reader"] = rng.choice(["string", "file"])
    meta["ic"] = rng.random() < 0.6
    return program_payload(P, **meta)


def balanced(P, a, b):
    st = P.stmts
    ins = set(range(a, b))
    opener = {}
    for i, s in enumerate(st):
        if s.role == "open" and s.cid is not None:
            opener[s.cid] = i
    for i, s in enumerate(st):
        if s.cid is None or s.role is None:
            continue
        j = opener.get(s.cid)
        if j is None:
            # closer of a main program without PROGRAM statement: must stay
            if i in ins:
                return False
            continue
        if (i in ins) != (j in ins):
            return False
    # shared-label DO: inner DO statements and the labelled terminator go together
    for i, s in enumerate(st):
        if s.kind == "label_do":
            lab = s.extra.get("do_label")
            k = next((q for q in range(i + 1, len(st)) if st[q].label == lab), None)
            if k is not None and (i in ins) != (k in ins):
                return False
    # a unit must not lose its only content marker: keep unit openers/closers of depth 0 outside
    for i in ins:
        if st[i].depth == 0 and ("unit_open" in st[i].flags or "unit_close" in st[i].flags):
            # whole top-level units may move only together (covered by the cid rule); fine
            pass
    return True


def inc_line(name, r, depth):
    q = r.choice(["'", '"'])
    kw = r.choice(["include", "INCLUDE", "Include", "inCLude"])
    return "  " * depth + r.choice(["", " "]) + kw + r.choice([" ", "  ", " ", ""]) + q + name + q + r.choice(["", "", "   "])


def build(P, payload):
    """Returns dict(main, files {name: text}, inc_positions [(line index in main, name)], a, b)."""
    r = random.Random(payload["split_seed"])
    lines = [("  " * s.depth) + s.src() for s in P.stmts]
    n = len(lines)
    mode = payload["mode"]
    # an unresolved include directly in front of a labelled DO sits where the labelled-DO look-ahead collects and
    # restores items: aimed at in a third of the 'absent' cases
    targets = [i for i, st in enumerate(P.stmts) if st.kind == "label_do" and i >= 2] if mode == "absent" else []
    aim = bool(targets) and r.random() < 0.35
    for _ in range(60):
        if aim:
            b = r.choice(targets)
            a = r.randrange(max(1, b - 6), b)
        else:
            a = r.randrange(0, n - 1)
            b = r.randrange(a + 1, min(n, a + 30) + 1)
        if mode == "absent" and not balanced(P, a, b):
            continue
        if mode == "absent" and (a == 0 and b == n):
            continue
        break
    else:
        return None
    names = r.sample(NAMES, 3)
    files = {}
    inner = lines[a:b]
    nested = None
    if mode in ("resolve",) and len(inner) > 3 and r.random() < 0.5:
        c = r.randrange(0, len(inner) - 1)
        e = r.randrange(c + 1, len(inner) + 1)
        files[names[1]] = "\n".join(inner[c:e]) + "\n"
        inner = inner[:c] + [inc_line(names[1], r, P.stmts[a + c].depth)] + inner[e:]
        nested = (c, e)
    files[names[0]] = "\n".join(inner) + "\n"
    main = lines[:a] + [inc_line(names[0], r, P.stmts[a].depth)] + lines[b:]
    positions = [(a, names[0])]
    second = None
    if mode == "resolve" and b + 2 < n and r.random() < 0.4:
        a2 = r.randrange(b, n - 1)
        b2 = r.randrange(a2 + 1, min(n, a2 + 12) + 1)
        files[names[2]] = "\n".join(lines[a2:b2]) + "\n"
        off = a + 1 - b
        main = main[: a2 + off] + [inc_line(names[2], r, P.stmts[a2].depth)] + main[b2 + off:]
        second = (a2, b2)
    if mode == "resolve" and len(main) > 1 and r.random() < 0.3:
        # an include file that delivers nothing (empty, or only a comment while comments are ignored) is transparent too
        void = "void_%d.inc" % r.randint(1, 3)
        files[void] = "" if not payload["ic"] or r.random() < 0.5 else r.choice(["! nothing here\n", "\n", "!\n! two\n"])
        k = r.randrange(1, len(main))
        main = main[:k] + [inc_line(void, r, 1)] + main[k:]
        if r.random() < 0.3:
            # ... also as the last line of another include file
            files[names[0]] += inc_line(void, r, 0) + "\n"
    return {"main": "\n".join(main) + "\n", "files": files, "a": a, "b": b, "names": names, "nested": nested,
            "second": second, "positions": positions}


def make_reader(main, dirs, kind, ic, workdir):
    if kind == "file":
        path = os.path.join(workdir, "main_vf.f90")
        with open(path, "w") as f:
            f.write(main)
        return fp.FortranFileReader(path, include_dirs=dirs, ignore_comments=ic)
    return fp.FortranStringReader(main, include_dirs=dirs, ignore_comments=ic)


def write_files(d, files):
    for name, text in files.items():
        p = os.path.join(d, name)
        os.makedirs(os.path.dirname(p), exist_ok=True)
        with open(p, "w") as f:
            f.write(text)


def parse(reader, std):
    sm = stream_monitor()
    sm.watch(reader)
    try:
        tree = fp.create(std)(reader)
        return tree, None, list(sm.anomalies)
    except fp.FortranSyntaxError as e:
        return None, str(e)[:160].replace("\n", " | "), list(sm.anomalies)
    finally:
        sm.reader = None


def check_raw(payload):
    """pinned reproducer: main text + include files against the text with the includes expanded by hand"""
    std, ic = payload["std"], payload.get("ic", True)
    viols = []
    work = tempfile.mkdtemp(prefix="vfc13_")
    try:
        write_files(work, payload["files"])
        try:
            ref = fp.create(std)(fp.FortranStringReader(payload["ref"], ignore_comments=ic))
        finally:
            fp.SYMBOL_TABLES.clear()
        try:
            tree, err, _ = parse(make_reader(payload["main"], [work], payload.get("reader", "string"), ic, work), std)
        finally:
            fp.SYMBOL_TABLES.clear()
        if tree is None:
            viols.append(viol(payload.get("key", "resolved-rejected"), err))
        else:
            a, b = shape(ref, FOLD), shape(tree, FOLD)
            if a != b:
                viols.append(viol(payload.get("key", "resolved-tree-differs"), first_diff(a, b)))
    finally:
        shutil.rmtree(work, ignore_errors=True)
    return {"violations": viols, "digests": [], "monitors": {"splits_checked": 1, "stream_next": 0}, "tally": {}}


def check(payload):
    if payload.get("mode") == "raw":
        return check_raw(payload)
    P = payload_program(payload)
    std = payload["std"]
    mode, kind, ic = payload["mode"], payload["reader"], payload["ic"]
    viols, digs = [], []
    mons = {"splits_checked": 0, "stream_next": 0}
    tally = {"mode": [mode], "reader": [kind]}
    B = build(P, payload)
    if B is None:
        return {"violations": [], "digests": [], "monitors": mons, "tally": tally}
    canon = P.canonical()
    try:
        ref = fp.create(std)(fp.FortranStringReader(canon, ignore_comments=ic))
    except fp.FortranSyntaxError:
        return {"violations": [], "digests": [], "monitors": mons, "tally": tally}
    finally:
        fp.SYMBOL_TABLES.clear()
    refshape = shape(ref, FOLD)
    work = tempfile.mkdtemp(prefix="vfc13_")
    shown = {"main": B["main"], "files": B["files"]}
    try:
        d1 = os.path.join(work, "d1")
        d2 = os.path.join(work, "d2")
        os.makedirs(d1)
        os.makedirs(d2)

        def report(key, detail):
            viols.append(viol(key, "(%s reader, ignore_comments=%s, %s) %s" % (kind, ic, mode, detail), shrunk={"source": shown}))

        if mode in ("resolve", "twodirs"):
            write_files(d1, B["files"])
            dirs = [d1]
            alt_expected = None
            if mode == "twodirs":
                # d2 holds a different file of the same name
                name = B["names"][0]
                alt = B["files"][name].replace("\n", "\n", 1)
                altlines = B["files"][name].rstrip("\n").split("\n")
                target = None
                for k in range(len(altlines)):
                    stx = P.stmts[B["a"] + k]
                    nm = sorted(stx.names)
                    if stx.role is not None or stx.cname or stx.kind in ("cycle", "exit", "entry"):
                        continue
                    if nm and re.search(r"\b%s\b" % re.escape(nm[0]), altlines[k]):
                        target = (k, nm[0])
                        break
                if target is None:
                    mode_ok = False
                else:
                    k, nm = target
                    altlines[k] = re.sub(r"\b%s\b" % re.escape(nm), "vf_alt_name", altlines[k], count=1)
                    write_files(d2, {name: "\n".join(altlines) + "\n"})
                    plines = canon.rstrip("\n").split("\n")
                    plines[B["a"] + k] = re.sub(r"\b%s\b" % re.escape(nm), "vf_alt_name", plines[B["a"] + k], count=1)
                    try:
                        alt_tree = fp.create(std)(fp.FortranStringReader("\n".join(plines) + "\n", ignore_comments=ic))
                        alt_expected = shape(alt_tree, FOLD)
                    except (fp.FortranSyntaxError, SystemExit):
                        alt_expected = None
                    finally:
                        fp.SYMBOL_TABLES.clear()
            for order in ([d1, d2], [d2, d1]) if (mode == "twodirs" and alt_expected is not None) else ([d1],):
                tree, err, anomalies = parse(make_reader(B["main"], list(order), kind, ic, work), std)
                mons["splits_checked"] += 1
                want = refshape if order[0] == d1 else alt_expected
                if tree is None:
                    report("resolved-rejected", "include_dirs order %s: %s" % ([os.path.basename(x) for x in order], err))
                    break
                got = shape(tree, FOLD)
                if got != want:
                    key = "resolved-tree-differs"
                    if len(order) == 2 and got == (alt_expected if order[0] == d1 else refshape):
                        key = "include-path-order-not-respected"
                    report(key, "include_dirs %s: %s" % ([os.path.basename(x) for x in order], first_diff(want, got)))
                    break
                if anomalies:
                    report("stream-anomaly:" + anomalies[0][0], "at position %s: %s vs %s" % anomalies[0][1:])
                    break
        else:  # absent
            tree, err, anomalies = parse(make_reader(B["main"], [d1], kind, ic, work), std)
            mons["splits_checked"] += 1
            name = B["names"][0]
            if tree is None:
                report("unresolved-include-rejected", "the source with the INCLUDE line kept in place is rejected: %s" % err)
            else:
                incs = fp.walk(tree, fp.F03.Include_Stmt)
                if len(incs) != 1:
                    key = "unresolved-include-node-count"
                    report(key, "%d Include_Stmt nodes for 1 unresolved INCLUDE line" % len(incs))
                else:
                    out_lines = [l.strip() for l in str(tree).split("\n") if l.strip() and not l.strip().startswith("!")]
                    a = B["a"]
                    # the main program without PROGRAM statement prints no opener; positions are by statement index
                    if a >= len(out_lines) or not re.match(r"include\b", out_lines[a], re.I):
                        where = next((k for k, l in enumerate(out_lines) if re.match(r"include\b", l, re.I)), None)
                        report("unresolved-include-position", "INCLUDE re-emitted as statement %s, expected %d" % (where, a))
                    else:
                        m = re.match(r"include\s*(['\"])(.*)\1\s*$", out_lines[a], re.I)
                        if not m or m.group(2) != name:
                            report("unresolved-include-name-changed", "re-emitted %r for file name %r" % (out_lines[a], name))
        if not viols and B["b"] - B["a"] >= 2:
            digs.append(digest(B["main"], sorted(B["files"].items()), mode, kind, ic))
    finally:
        shutil.rmtree(work, ignore_errors=True)
        fp.SYMBOL_TABLES.clear()
    return {"violations": viols, "digests": digs, "monitors": mons, "tally": tally,
            "sample": {"mode": mode, "main": B["main"][:500], "files": {k: v[:200] for k, v in B["files"].items()}}}
