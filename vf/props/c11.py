"""C11 comments are kept exactly once and in place, or ignored without effect."""
import re
import random

from .. import fp, layout
from ..common import payload_program, program_payload, digest, parse_monitored
from ..canon import shape, ShapeOpts, first_diff, iter_nodes
from .base import gen_program, viol, shrink_program

ID = "C11"
LEVEL = "exploration"
TIERS = {"quick": {"cases": 2200, "wall": 100, "min_nontrivial": 1200},
         "thorough": {"cases": 60000, "wall": 1800, "min_nontrivial": 12000}}
RULE = ("generator -> valid program, decorated by vf.layout with comments of known text and position: full-line (before "
        "the first unit, after the last, after every opener, before every closer, anywhere), trailing, between "
        "continuation lines and trailing on continuation lines; texts include quotes, '!', '&' at the end, ';', "
        "statement look-alikes and directive sentinels. Oracles: (keep) the sequence of statements and non-empty Comment "
        "nodes in tree order equals the expected interleaving (statement, the comments inside its span, following "
        "full-line comments), texts unchanged, each exactly once; comment lines of str(tree) equal the same list; "
        "reader-item conservation; (ignore) shape(tree(P+K)) == shape(tree(P)); (directives) same sequence with "
        "Directive exactly for comments on a line of their own whose text starts with !$<letter>, !dir$ or !gcc$. "
        "non-trivial = >=3 comments of >=2 kinds; distinct by SHA-1 of text")
ASSUMPTIONS = ["tabs are not used inside comments (the reader expands them)", "blank lines are not comments"]
DECIDING_MONITORS = ("comments_checked",)

LAYOUTS = [
    dict(comments=True, p_full=0.25, p_trailing=0.2, p_cont=0.0, p_blank=0.05),
    dict(comments=True, p_full=0.15, p_trailing=0.15, p_cont=0.3, p_cont_comment=0.5, p_cont_between=0.5, max_breaks=3),
    dict(comments=True, p_full=0.3, p_trailing=0.3, p_cont=0.15, p_semi=0.15, indent="random"),
]
DIRECTIVE = re.compile(r"!\$[a-z]|!dir\$|!gcc\$", re.I)
FOLD = ShapeOpts(fold_all=True, prune_empty=True)


def make_payload(rng, idx, tier):
    P, meta = gen_program(rng, tier, size=rng.choice([0.5, 1.0, 1.0]))
    meta["layout_seed"] = rng.getrandbits(32)
    meta["li"] = rng.randrange(len(LAYOUTS))
    return program_payload(P, **meta)


def expected_sequence(P, info):
    """[('S', stmt index) | ('C', text, kind)] in the order the tree must show."""
    out = []
    first, last = info["stmt_first"], info["stmt_last"]
    groups = []
    for i in range(len(P.stmts)):
        if groups and first[i] == first[groups[-1][0]] and last[i] == last[groups[-1][0]]:
            groups[-1].append(i)
        else:
            groups.append([i])
    comments = [c for c in info["comments"] if c[2] != "blank"]
    ci = 0
    for g in groups:
        a, b = first[g[0]], last[g[0]]
        while ci < len(comments) and comments[ci][0] < a:
            out.append(("C", comments[ci][1].strip(), comments[ci][2]))
            ci += 1
        for i in g:
            out.append(("S", i, None))
        while ci < len(comments) and comments[ci][0] <= b:
            out.append(("C", comments[ci][1].strip(), comments[ci][2]))
            ci += 1
    while ci < len(comments):
        out.append(("C", comments[ci][1].strip(), comments[ci][2]))
        ci += 1
    return out


def tree_sequence(tree):
    from fparser.two.utils import StmtBase

    Comment, Directive = fp.F03.Comment, fp.F03.Directive
    out = []
    for n in iter_nodes(tree):
        if isinstance(n, (Comment, Directive)):
            t = str(n)
            if t.strip():
                out.append(("D" if isinstance(n, Directive) else "C", t.strip()))
        elif getattr(n, "item", None) is not None:
            out.append(("S", None))
    return out


def one(P, std, payload, mons=None):
    text, info = layout.render(P, random.Random(payload["layout_seed"]), LAYOUTS[payload["li"]])
    ref = parse_monitored(P.canonical(), std, conserve=False)
    if ref.error is not None:
        return None, text, 0
    exp = expected_sequence(P, info)
    ncom = sum(1 for e in exp if e[0] == "C")
    # ---- ignore
    r = parse_monitored(text, std, ignore_comments=True, conserve=False)
    if r.error is not None:
        kk = layout.known_rejection_key(text)
        return viol(kk or "ignore:rejected", "with comments ignored the decorated source is rejected: %s" % str(r.error)[:140].replace("\n", " | ")), text, ncom
    a, b = shape(ref.tree, FOLD), shape(r.tree, FOLD)
    if a != b:
        return viol("ignore:tree-differs", "ignore_comments=True: %s" % first_diff(a, b)), text, ncom
    # ---- keep
    k = parse_monitored(text, std, ignore_comments=False)
    if k.error is not None:
        return viol("keep:rejected", "with comments kept the decorated source is rejected: %s" % str(k.error)[:140].replace("\n", " | ")), text, ncom
    got = tree_sequence(k.tree)
    e2 = [("S", None) if e[0] == "S" else ("C", e[1]) for e in exp]
    if got != e2:
        gc, ec = [g[1] for g in got if g[0] != "S"], [e[1] for e in e2 if e[0] != "S"]
        if sorted(gc) != sorted(ec):
            miss = [c for c in ec if gc.count(c) < ec.count(c)]
            extra = [c for c in gc if gc.count(c) > ec.count(c)]
            key = "keep:comment-lost-or-duplicated"
            return viol(key, "missing %r, surplus %r (of %d comments)" % (miss[:3], extra[:3], len(ec))), text, ncom
        if gc != ec:
            j = next(i for i, (x, y) in enumerate(zip(gc, ec)) if x != y)
            return viol("keep:comment-order", "comment %d is %r, expected %r" % (j, gc[j], ec[j])), text, ncom
        j = next((i for i, (x, y) in enumerate(zip(got, e2)) if x != y), min(len(got), len(e2)))
        return viol("keep:comment-position", "item %d of the statement/comment sequence is %r, expected %r (context %r)" % (
            j, got[j] if j < len(got) else None, e2[j] if j < len(e2) else None, e2[max(0, j - 2): j + 2])), text, ncom
    out_comments = [l.strip() for l in str(k.tree).split("\n") if l.strip().startswith("!")]
    ec = [e[1] for e in exp if e[0] == "C"]
    if out_comments != ec:
        return viol("keep:regenerated-comments", "comment lines of str(tree) %r... differ from the source's %r..." % (out_comments[:3], ec[:3])), text, ncom
    if k.conservation:
        return viol("keep:item-conservation", "; ".join(k.conservation)), text, ncom
    # ---- directives
    d = parse_monitored(text, std, ignore_comments=False, process_directives=True, conserve=False)
    if d.error is not None:
        return viol("directives:rejected", str(d.error)[:140].replace("\n", " | ")), text, ncom
    gotd = tree_sequence(d.tree)
    expd = []
    for e in exp:
        if e[0] == "S":
            expd.append(("S", None))
        else:
            is_dir = e[2] in ("full", "incont") and DIRECTIVE.match(e[1]) is not None
            expd.append(("D" if is_dir else "C", e[1]))
    if gotd != expd:
        j = next((i for i, (x, y) in enumerate(zip(gotd, expd)) if x != y), min(len(gotd), len(expd)))
        g, x = (gotd[j] if j < len(gotd) else None), (expd[j] if j < len(expd) else None)
        key = "directives:sequence"
        if g and x and g[1] == x[1] and {g[0], x[0]} == {"C", "D"}:
            kind = next((e[2] for e in exp if e[0] == "C" and e[1] == x[1]), "?")
            key = "directives:%s-comment-typed-%s" % (kind, "Directive" if g[0] == "D" else "Comment")
        return viol(key, "item %d is %r, expected %r" % (j, g, x)), text, ncom
    if mons is not None:
        mons["comments_checked"] += ncom
    return None, text, ncom


def check_raw(payload):
    std = payload["std"]
    vs = []
    d = parse_monitored(payload["text"], std, ignore_comments=False, process_directives=True)
    if d.error is not None:
        vs.append(viol(payload.get("key", "keep:rejected"), str(d.error)[:160]))
    else:
        got = [list(x) for x in tree_sequence(d.tree) if x[0] != "S"]
        if got != payload["comments"]:
            vs.append(viol(payload.get("key", "directives:sequence"), "comment/directive nodes %r, expected %r" % (got, payload["comments"])))
        elif d.conservation:
            vs.append(viol("keep:item-conservation", "; ".join(d.conservation)))
    return {"violations": vs, "digests": [], "monitors": {"comments_checked": 1}, "tally": {}}


def check(payload):
    if payload.get("mode") == "raw":
        return check_raw(payload)
    P = payload_program(payload)
    std = payload["std"]
    viols, digs = [], []
    mons = {"comments_checked": 0}
    v, text, ncom = one(P, std, payload, mons)
    if v is None:
        if ncom >= 3:
            digs.append(digest(text, std))
    else:
        key = v["key"]

        def still(Q):
            w, _, _ = one(Q, std, payload)
            return w is not None and w["key"] == key

        Q = shrink_program(P, still, budget=80)
        w, qtext, _ = one(Q, std, payload)
        v["shrunk"] = {"source": qtext, "detail": w["detail"] if w else None}
        v["payload"] = dict(payload, program=Q.to_json())
        viols.append(v)
    return {"violations": viols, "digests": digs, "monitors": mons, "tally": {"layout": [payload["li"]]},
            "sample": {"text": text[:800]}}
