"""C02 token-for-token content preservation (independent lexer + by-construction
expectation) and reader-item conservation (M-STREAM)."""
import random

from ..common import (parse_monitored, payload_program, program_payload, digest, compare_program_tokens,
                      repmap_monitor)
from .base import gen_program, nontrivial, viol, shrink_program
from .. import layout

ID = "C02"
LEVEL = "exploration"
TIERS = {"quick": {"cases": 2000, "wall": 100, "min_nontrivial": 300},
         "thorough": {"cases": 60000, "wall": 1500, "min_nontrivial": 5000}}
RULE = ("generator -> valid program P with its token sequence known by construction (vf/gen/model.py roles: source-only, "
        "canonical-only for the documented canonicalisations); canonical layout plus 3 random free-form layouts (one with literals broken inside and continuation lines starting with &) "
        "(continuations, ';' joins, case flips of keywords); oracle: blank-free character stream of every regenerated "
        "statement equals the expected one, names/literals/labels exact, the rest case-insensitive; plus reader-item "
        "conservation (every consumed reader item is attached to exactly one tree node) and string_replace_map "
        "losslessness; non-trivial = >=6 statements and >=3 kinds; distinct by SHA-1 of (layout text, std)")
ASSUMPTIONS = ["vf.lexer tokenises the regenerated text correctly (no continuation lines in fparser output)",
               "the role table of the templates lists only canonicalisations named in the property statement"]
DECIDING_MONITORS = ("statements_compared", "items_conserved")

LAYOUTS = [None,
           dict(comments=False, p_cont=0.25, p_semi=0.15, p_case=0.5, indent="random", p_blank=0.05),
           dict(comments=False, p_cont=0.5, p_semi=0.05, p_case=0.2, indent="random", p_lead_amp=0.3, max_breaks=4),
           # continuation lines that start with '&' wherever possible, literals broken inside
           dict(comments=False, p_cont=0.6, p_semi=0.0, p_case=0.0, indent="depth", p_lead_amp=0.9, max_breaks=5, p_str_split=0.1)]


def make_payload(rng, idx, tier):
    multi = True
    P, meta = gen_program(rng, tier)
    meta["layout_seed"] = rng.getrandbits(32)
    meta["bare_main_multi"] = multi
    return program_payload(P, **meta)


def render(P, li, lseed):
    if li == 0:
        return P.canonical()
    text, _ = layout.render(P, random.Random(lseed + li), LAYOUTS[li])
    return text


def one(P, std, li, lseed, mons=None):
    src = render(P, li, lseed)
    r = parse_monitored(src, std, ignore_comments=True)
    if r.error is not None:
        return None, src, "rejected"   # C01/C04's business
    out = str(r.tree)
    vs, devs, n = compare_program_tokens(P.stmts, out)
    if mons is not None:
        mons["statements_compared"] += n
        mons["items_conserved"] += r.consumed
    if r.conservation:
        vs.append(viol("item-conservation", "; ".join(r.conservation)))
    if vs:
        v = vs[0]
        v["detail"] = "(%s, layout %d) %s" % (std, li, v["detail"])
        return v, src, devs
    return None, src, devs


def check(payload):
    if payload.get("mode") == "source":
        r = parse_monitored(payload["text"], payload["std"], ignore_comments=payload.get("ic", True))
        vs = []
        if r.error is not None:
            vs.append(viol("rejected", str(r.error)[:160]))
        else:
            got = "\n".join(l.strip() for l in str(r.tree).split("\n") if l.strip())
            if got != payload["expected"]:
                vs.append(viol(payload.get("key", "token-mismatch"), "regenerated %r, expected %r" % (got, payload["expected"])))
            elif r.conservation:
                vs.append(viol("item-conservation", "; ".join(r.conservation)))
        return {"violations": vs, "digests": [], "monitors": {"statements_compared": 1, "items_conserved": 1}, "tally": {}}
    P = payload_program(payload)
    std = payload["std"]
    lseed = payload.get("layout_seed", 0)
    rm = repmap_monitor()
    n0 = rm.checked
    viols = []
    mons = {"statements_compared": 0, "items_conserved": 0, "rejected_by_parser": 0}
    tally = {"stmt_kinds": P.kinds(), "deviations": []}
    digs = []
    seen = set()
    layouts = payload.get("layouts", [0, 1, 2, 3])
    for li in layouts:
        v, src, devs = one(P, std, li, lseed, mons)
        if devs == "rejected":
            mons["rejected_by_parser"] += 1
            continue
        for d in devs:
            key = "deviation:" + d
            tally["deviations"].append(d)
            if key not in seen:
                seen.add(key)
                viols.append(viol(key, "(%s, layout %d) regenerated text differs from the source by the rewrite %r, "
                                  "which the property statement does not list" % (std, li, d), layout=li,
                                  payload=dict(payload, program=_only_dev(P, d).to_json(), layouts=[0])))
        if v is None:
            if nontrivial(P):
                digs.append(digest(src, std))
            continue
        if v["key"] in seen:
            continue
        seen.add(v["key"])
        key = v["key"]

        def still(Q, li=li, key=key):
            w, _, _ = one(Q, std, li, lseed)
            return w is not None and w["key"] == key

        Q = shrink_program(P, still)
        w, qsrc, _ = one(Q, std, li, lseed)
        v["shrunk"] = {"source": qsrc, "detail": w["detail"] if w else None}
        v["payload"] = dict(payload, program=Q.to_json(), layouts=[li])
        if payload.get("bare_main_multi") and key == "statement-count" and _bare_main_multi(P):
            v["key"] = "main-program-without-program-stmt-drops-other-units"
        viols.append(v)
    mons["repmap_lines_checked"] = rm.checked - n0
    for bad in rm.bad:
        viols.append(viol("string_replace_map-lossy", "string_replace_map(%r, lower=%r) maps back to %r" % bad))
    del rm.bad[:]
    return {"violations": viols, "digests": digs, "tally": tally, "monitors": mons,
            "sample": {"std": std, "source": render(P, 1, lseed)[:1500]}}


def _only_dev(P, dev):
    """Smallest sub-program showing deviation dev: the enclosing unit's opener/closer and the statement."""
    from ..gen.model import Program, Stmt
    import copy

    for i, s in enumerate(P.stmts):
        if ("{?%s|" % dev) in s.text or (dev == "numeric-literal-case" and _has_numcase(s)):
            keep = [Stmt("program", "program vf_pin"), Stmt.from_json(s.to_json()), Stmt("end_program", "end program vf_pin")]
            keep[1].label = s.label if s.role is None else None
            keep[1].cname = None
            if s.role is not None:
                continue
            keep[1].depth = 1
            return Program(keep, P.std)
    return P


def _has_numcase(s):
    import re
    from ..gen.model import to_src

    t = to_src(s.text)
    return re.search(r"\d[ed][+-]?\d|\b[boz]['\"]", t) is not None


def _bare_main_multi(P):
    units = {s.unit for s in P.stmts}
    if len(units) < 2:
        return False
    closers = [s for s in P.stmts if s.kind == "end_program"]
    openers = [s for s in P.stmts if s.kind == "program"]
    return bool(closers) and not openers
