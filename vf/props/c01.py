"""C01 round-trip fixpoint: parse(P) exists; parse(str(T)) ~ T; str twice equal."""
import re
import random

from ..common import parse_monitored, payload_program, program_payload, digest
from ..canon import shape, norm_text, first_diff
from .base import gen_program, nontrivial, stmt_at_line, viol, shrink_program
from ..decorate import insert_comments

ID = "C01"
LEVEL = "exploration"
TIERS = {"quick": {"cases": 2200, "wall": 100, "min_nontrivial": 300},
         "thorough": {"cases": 60000, "wall": 1500, "min_nontrivial": 5000}}
RULE = ("grammar-directed generator (vf/gen) -> valid program P; configs std in {f2003,f2008 (f2003 only if P has no "
        "f2008 feature)} x ignore_comments in {True, False(with inserted comments)}; oracle: parse(P) succeeds, "
        "parse(str(T)) succeeds, shape equal (block:N renumbered), str equal; non-trivial = >=6 statements and >=3 "
        "statement kinds; distinct by SHA-1 of (source, config)")
ASSUMPTIONS = ["generator emits valid Fortran of the supported class (templates validated against gfortran -fsyntax-only "
               "at development time)", "READ <name>, list and other forms fparser documents as unsupported are not generated"]
DECIDING_MONITORS = ("roundtrips",)


def _splice_c1002(sh):
    if not isinstance(sh, tuple):
        return sh
    out = []
    for c in sh:
        c2 = _splice_c1002(c)
        if isinstance(c2, tuple) and c2 and c2[0] == "Format_Item_C1002":
            out.extend(c2[1:])
        else:
            out.append(c2)
    return tuple(out)


def make_payload(rng, idx, tier):
    P, meta = gen_program(rng, tier)
    meta["comments_seed"] = rng.getrandbits(32)
    return program_payload(P, **meta)


def err_line(e):
    m = re.search(r"at line (\d+)\n>>>(.*)", str(e))
    return (int(m.group(1)), m.group(2)) if m else (None, str(e)[:120])


def render(P, ic, cseed):
    if ic:
        return P.canonical(), None
    src, info = insert_comments(P, random.Random(cseed))
    return src, info["stmt_last"]


def one_config(P, sd, ic, cseed, mons=None, raw=None):
    """Returns (violation or None, source)."""
    if raw is not None:
        src, linemap = raw, None
    else:
        src, linemap = render(P, ic, cseed)
    r1 = parse_monitored(src, sd, ignore_comments=ic)
    if mons is not None:
        mons["stream_next"] += r1.n_next
        mons["stream_put"] += r1.n_put
    tag = "(%s, ignore_comments=%s)" % (sd, ic)
    if r1.error is not None:
        ln, txt = err_line(r1.error)
        st = None
        if ln is not None:
            if linemap is None:
                st = stmt_at_line(P, ln)
            else:
                idxs = [i for i, l in enumerate(linemap) if l >= ln]
                st = P.stmts[idxs[0]] if idxs else None
        return viol("rejected:%s" % (st.kind if st else "?"),
                    "valid program rejected %s at line %s: %r" % (tag, ln, txt), config=[sd, ic]), src
    t1 = r1.tree
    s1 = str(t1)
    r2 = parse_monitored(s1, sd, ignore_comments=ic)
    if mons is not None:
        mons["roundtrips"] += 1
    if r2.error is not None:
        ln, txt = err_line(r2.error)
        return viol("regenerated-rejected", "str(tree) not accepted again %s at line %s: %r" % (tag, ln, txt),
                    config=[sd, ic]), src
    sh1, sh2 = shape(t1), shape(r2.tree)
    if sh1 != sh2:
        key = "reparse-shape-differs"
        if _splice_c1002(sh1) == _splice_c1002(sh2):
            # the only difference: a Format_Item_C1002 node (kP directly followed by a data edit descriptor) is printed
            # with a comma and comes back as two list items
            key = "format-c1002-node-not-reproduced"
        return viol(key, "%s %s" % (tag, first_diff(sh1, sh2)), config=[sd, ic]), src
    s2 = str(r2.tree)
    if norm_text(s1) != norm_text(s2):
        a, b = norm_text(s1).split("\n"), norm_text(s2).split("\n")
        k = next((i for i, (x, y) in enumerate(zip(a, b)) if x != y), min(len(a), len(b)))
        return viol("reparse-text-differs", "%s line %d: %r vs %r" % (
            tag, k + 1, a[k] if k < len(a) else None, b[k] if k < len(b) else None), config=[sd, ic]), src
    return None, src


def check(payload):
    if payload.get("mode") == "source":
        from ..gen.model import Program

        v, _ = one_config(Program([], payload["std"]), payload["std"], payload.get("ic", True), 0, raw=payload["text"])
        return {"violations": [v] if v else [], "digests": [], "monitors": {"roundtrips": 1}, "tally": {}}
    P = payload_program(payload)
    std = payload["std"]
    cseed = payload.get("comments_seed", 0)
    viols = []
    mons = {"roundtrips": 0, "stream_next": 0, "stream_put": 0}
    tally = {"stmt_kinds": P.kinds(), "config": []}
    digs = []
    configs = payload.get("configs")
    if configs is None:
        configs = []
        for ic in (True, False):
            stds = [std] if std == "f2008" else (["f2003", "f2008"] if not ic else ["f2003"])
            configs += [(sd, ic) for sd in stds]
    seen_keys = set()
    for sd, ic in configs:
        tally["config"].append("%s/ic=%s" % (sd, ic))
        v, src = one_config(P, sd, ic, cseed, mons)
        if v is None:
            if nontrivial(P):
                digs.append(digest(src, sd, ic))
            continue
        if v["key"] in seen_keys:
            continue
        seen_keys.add(v["key"])
        key = v["key"]

        def still(Q, sd=sd, ic=ic, key=key):
            w, _ = one_config(Q, sd, ic, cseed)
            return w is not None and w["key"] == key

        Q = shrink_program(P, still)
        w, qsrc = one_config(Q, sd, ic, cseed)
        v["shrunk"] = {"source": qsrc, "detail": w["detail"] if w else None, "config": [sd, ic]}
        v["payload"] = dict(payload, program=Q.to_json(), configs=[[sd, ic]])
        viols.append(v)
    return {"violations": viols, "digests": digs, "tally": tally, "monitors": mons,
            "sample": {"std": std, "source": P.canonical()[:1500]}}
