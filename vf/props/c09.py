"""C09 a parse is a function of its input, not of earlier parses."""
import os
import sys
import json
import time
import random
import hashlib
import itertools
import subprocess

from .. import fp, monitors
from ..canon import shape, norm_text
from ..common import digest
from ..gen.program import generate
from .. import mutate
from .base import viol

ID = "C09"
LEVEL = "exploration"
TIERS = {"quick": {"cases": 700, "wall": 100, "min_nontrivial": 1500, "maxlen": 3},
         "thorough": {"cases": 16000, "wall": 1800, "min_nontrivial": 20000, "maxlen": 4}}
RULE = ("part 1: histories h over a 10-symbol alphabet {create(f2003), create(f2008), parse(valid_1..3), "
        "parse(invalid_1..5)} enumerated exhaustively up to length 3 (quick) / 4 (thorough), plus random histories up "
        "to length 8 over ~70 valid probes (hand-written one per stateful grammar region, generated programs in canonical, "
        "continued/';'-joined and fixed-form layout, f2py-enabled sources) and ~30 invalid probes (including every "
        "scope-leaking shape known), observed with ignore_comments / process_directives on and off; after h: "
        "create(s); parse(x) is compared (accept/reject, exception text, str, structural shape, symbol-table forest; "
        "block:N renumbered) with a reference computed in a FRESH PROCESS doing only create(s); parse(x). part 2: after "
        "every raising parse: scope depth 0, current_scope None, top-level table names unchanged; and session A "
        "(create; ops) vs session B (same, failing parses deleted) must give identical results for the remaining "
        "parses. non-trivial = a history with >=1 parse before the observed one; distinct by SHA-1 of (history, s, x)")
ASSUMPTIONS = ["the reference process imports the same /repo/src", "the standard is process-global: a parse runs under the standard created last"]
ENUM_CASES = {"quick": lambda n: int(n * 0.6), "thorough": lambda n: int(n * 0.6)}
DECIDING_MONITORS = ("observed_parses", "failing_parses_checked")
EXHAUSTIVE = {"quick": True, "thorough": True, "note": "exhaustive for part 1 over the 10-symbol alphabet up to the stated length; random beyond"}

HERE = os.path.dirname(os.path.dirname(os.path.dirname(os.path.abspath(__file__))))

# ----------------------------------------------------------------- probes
HAND_VALID = [
    "module a\n  integer :: sin\ncontains\n  subroutine s(x)\n    x = sin(1)\n  end subroutine s\nend module a\n",
    "module a\ncontains\n  subroutine s(x)\n    x = sin(x)\n  end subroutine s\nend module a\n",
    "program p\n  real :: cos\n  x = cos(1) + sin(2)\nend program p\n",
    "x = sin(1.0)\nend\n",
    "program p\n  block\n    integer :: q\n    q = max(1, 2)\n  end block\n  block\n  end block\nend program p\n",
    "subroutine s\n  use a\n  y = max(1, 2, 3)\nend subroutine s\nfunction f()\n  integer :: max\n  f = max(1)\nend function f\n",
    "module m\n  integer :: abs\ncontains\n  function g(x)\n    g = abs(x)\n  contains\n    subroutine h\n      real :: sqrt\n      z = sqrt(2) + abs(1)\n    end subroutine h\n  end function g\nend module m\n",
]
# references to names that are intrinsics only in Fortran 2008 (valid under both standards; printed in upper case
# only by the 2008 parser)
HAND_VALID.append("program p\n  y = gamma(x) + erf(z)\n  k = shiftl(i, 2) + shiftr(j, 1) + shifta(m, 3)\nend program p\n")
# one small program per grammar region that keeps state of its own (look-ahead hooks, caches, class lists)
HAND_VALID += [
    "subroutine s(a, n)\n  real a(n)\n  do 20 i = 1, n\n20 t = t + a(i)\n  do 10 i = 1, n\n10 if (a(i) < 0.0) a(i) = 0.0\nend subroutine s\n",
    "program p\n  do 5 i = 1, 2\n  do 5 j = 1, 2\n5 x = i + j\n  do 7 k = 1, 2\n    y = k\n7 continue\nend program p\n",
    "call setup()\nend\n",
    "continue\ncall setup()\nend\n",
    "common /c/ x\ncharacter(len=3) :: s\nx = 1\ns = 'abc'\nend\n",
    "program p\n  x = 1.0; y = 2.0\n  a = 1; b = 2; c = 3\n  z = 0; w = 1\n  k = 1; l = 2\n  m = 1; n = 2\nend program p\n",
    "module m\n  type t\n    integer :: i\n  contains\n    procedure :: f\n    generic :: g => f\n  end type t\n  interface\n    subroutine ext(a)\n      real a\n    end subroutine ext\n  end interface\ncontains\n  function f(this)\n    class(t) :: this\n    select type (this)\n    type is (t)\n      f = 1\n    class default\n      f = 2\n    end select\n  end function f\nend module m\n",
    "subroutine io(u)\n  open (unit = u, file = 'a.txt', status = 'old')\n  read (u, 100, end = 20) x\n100 format (1x, f8.3, 2(i3, a))\n  write (u, '(a)') 'text'\n20 close (u)\n  where (a > 0) a = 1\n  forall (i = 1:3) b(i) = i\nend subroutine io\n",
]
# fixed-form sources whose comment lines are statements when read as free form (and the other way round)
HAND_FIXED = [
    "call setup()\n      call setup()\n      end\n",
    "continue\n* x = 1\n      continue\n      x = 1\n      end\n",
    "character(len=3) :: s\n      character(len=3) :: s\n      s = 'abc'\ncommon /c/ x\n      end\n",
    "      program p\nc = 1\n      c = 1\n      x = 1.0; y = 2.0\n     & ; z = 3\n      end program p\n",
]
# sources read with f2py directives enabled (!f2py lines are statements)
HAND_F2PY = [
    "subroutine s(x, y)\n!f2py intent(in) x\n  real x\n!f2py intent(out) y\n!f2py integer y\n  y = x\nend subroutine s\n",
    "program p\n  a = 1\n!f2py x = 1.0\n!f2py continue\nend program p\n",
]
HAND_INVALID = [
    # intrinsic argument count -> InternalSyntaxError inside a unit
    "subroutine s\n  x = sin(1, 2, 3)\nend subroutine s\n",
    "module a\n  integer :: sin\ncontains\n  subroutine s\n    x = cos(1, 2, 3)\n  end subroutine s\nend module a\n",
    # main program without PROGRAM statement that fails
    "x = 1\ny = = 2\nend\n",
    "integer :: sin\nx = sin(1\nend\n",
    # earlier units fine, later one fails
    "module a\n  integer :: sin\nend module a\nmodule b\n  x = = 1\nend module b\n",
    "module a\n  real :: cos, sin\nend module a\nsubroutine t\n  call (\nend subroutine t\n",
    "program p\n  integer :: max\n  x = max(1)\n  if (x then\nend program p\n",
    # unterminated / ill-nested
    "subroutine a\n  if (x) then\nend subroutine a\n",
    "module m\ncontains\n  subroutine s\n    do i = 1, 2\n  end subroutine s\nend module m\n",
    "program p\n  block\n    integer :: sin\n    x = sin(1, 2)\n  end block\nend program p\n",
    "function f()\n  real :: abs\ncontains\n  subroutine g\n    x = = 1\n  end subroutine g\nend function f\n",
    "subroutine a\nend subroutine b\n",
    "@@@\n",
    "program p\n  integer :: sqrt\n  x = sqrt(4)\nend program q\n",
    "module a\n  integer :: sin\ncontains\n  subroutine s\n  x = sin(1)\n",
]

_PROBES = {}


def probes():
    if not _PROBES:
        valid = list(HAND_VALID)
        for k in range(24):
            std = "f2008" if k % 3 == 0 else "f2003"
            valid.append(generate(9000 + k, std, size=0.5, max_units=2).canonical())
        from .. import layout, fixedform

        fixed = list(HAND_FIXED)
        for k in range(24, 52):
            std = "f2008" if k % 3 == 0 else "f2003"
            P = generate(9000 + k, std, size=0.8 if k % 2 else 0.5, max_units=2)
            if k % 4 == 0:
                # free-form layout with continuations, comments and ';' joins
                valid.append(layout.render(P, random.Random(k), dict(p_cont=0.3, p_semi=0.3, comments=True, indent="depth"))[0])
            elif k % 4 == 1:
                fixed.append(fixedform.render(P, random.Random(k), dict(comments=True, p_semi=0.1))[0])
            else:
                valid.append(P.canonical())
        _PROBES["fixed"] = fixed
        _PROBES["f2py"] = list(HAND_F2PY)
        invalid = list(HAND_INVALID)
        r = random.Random(77)
        k = 0
        while len(invalid) < 32:
            base = generate(9500 + k, "f2003", size=0.5, max_units=2).canonical()
            k += 1
            invalid.append(mutate.mutate_text(base, r, 1))
        _PROBES["valid"] = valid
        _PROBES["invalid"] = invalid
        # sources that use exactly one F2008-only feature: valid under f2008, to be rejected under f2003
        # whatever was created or parsed before
        from .c17 import F08_SNIPPETS

        f08 = []
        _PROBES["f08_names"] = sorted(F08_SNIPPETS)
        for name in sorted(F08_SNIPPETS):
            kind, text = F08_SNIPPETS[name]
            if kind == "unit":
                f08.append(text)
            elif kind == "spec":
                f08.append("subroutine vf_h(vf_a)\n" + text + "\n  vf_a = 1\nend subroutine vf_h\n")
            else:
                f08.append("subroutine vf_h(vf_a)\n  open (unit = 10, file = 'a.txt')\n" + text + "\nend subroutine vf_h\n")
        _PROBES["f08"] = f08
    return _PROBES


# --------------------------------------------------------------- observing
def observe(text, opts=None):
    """Parse text with the parser created last; returns a JSON-able signature."""
    opts = opts or {}
    std = observe.std
    out = {"std": std}
    try:
        opts = dict(opts)
        f2py = opts.pop("_f2py", False)
        reader = fp.FortranStringReader(text, **opts)
        if f2py:
            from fparser.common.sourceinfo import FortranFormat

            reader.set_format(FortranFormat(True, False, True))
        tree = observe.parser(reader)
        out["status"] = "tree"
        out["text"] = norm_text(str(tree))
        out["shape"] = hashlib.sha1(repr(shape(tree)).encode()).hexdigest()[:16]
    except fp.FortranSyntaxError as e:
        out["status"] = "syntaxerror"
        out["exc"] = str(e)[:300]
    except monitors.StepBudgetExceeded:
        # a parse that does not end within the step bound is an observation like any other: the fresh-process
        # reference (which runs under the same bound) either agrees or the history made the difference
        out["status"] = "step-budget-exceeded"
    except monitors.CaseTimeout:
        raise
    except BaseException as e:  # noqa
        if isinstance(e, KeyboardInterrupt):
            raise
        out["status"] = "exception:" + type(e).__name__
        out["exc"] = str(e)[:300]
    out["depth"] = monitors.scope_depth()
    out["tables"] = _ren(repr(monitors.table_forest()))
    return out


def _ren(s):
    import re

    ren = {}

    def sub(m):
        k = m.group(0)
        if k not in ren:
            ren[k] = "block:#%d" % len(ren)
        return ren[k]

    return re.sub(r"block:\d+", sub, s)


def create(std):
    observe.parser = fp.create(std)
    observe.std = std


observe.parser = None
observe.std = None


def run_history(hist, pr):
    """Executes ops; returns list of observations for parse ops (None for creates)."""
    obs = []
    for op in hist:
        if op[0] == "create":
            create(op[1])
            obs.append(None)
        else:
            kind, i = op[1], op[2]
            if observe.parser is None:
                # a parse before any create: use the class directly, as a user holding no handle cannot; skip
                obs.append(None)
                continue
            obs.append(observe(pr[kind][i], op[3] if len(op) > 3 else None))
    return obs


# ------------------------------------------------------------- references
def _cache_dir():
    d = os.path.join(HERE, "out", "run", "c09-%d" % os.getppid())
    os.makedirs(d, exist_ok=True)
    return d


def reference(std, kind, i, opts):
    key = hashlib.sha1(json.dumps([std, kind, i, opts], sort_keys=True).encode()).hexdigest()[:16]
    path = os.path.join(_cache_dir(), key + ".json")
    for _ in range(600):
        if os.path.exists(path):
            try:
                with open(path) as f:
                    return json.load(f)
            except ValueError:
                time.sleep(0.05)
                continue
        lock = path + ".lock"
        try:
            fd = os.open(lock, os.O_CREAT | os.O_EXCL | os.O_WRONLY)
            os.close(fd)
        except FileExistsError:
            time.sleep(0.1)
            continue
        try:
            env = dict(os.environ)
            env["PYTHONPATH"] = HERE
            env["PYTHONHASHSEED"] = "0"
            p = subprocess.run([sys.executable, "-m", "vf.props.c09", "--ref", std, kind, str(i), json.dumps(opts or {})],
                               cwd=HERE, env=env, capture_output=True, timeout=300)
            line = p.stdout.decode().strip().split("\n")[-1]
            data = json.loads(line)
            tmp = path + ".tmp%d" % os.getpid()
            with open(tmp, "w") as f:
                json.dump(data, f)
            os.replace(tmp, path)
            return data
        finally:
            try:
                os.remove(lock)
            except OSError:
                pass
    raise RuntimeError("reference not available")


def worker_init(tier, seed):
    # drop stale reference caches of earlier runs
    base = os.path.join(HERE, "out", "run")
    try:
        for d in os.listdir(base):
            p = os.path.join(base, d)
            if d.startswith("c09-") and time.time() - os.path.getmtime(p) > 7200:
                import shutil

                shutil.rmtree(p, ignore_errors=True)
    except OSError:
        pass


def worker_finish():
    return {}


# ----------------------------------------------------------------- cases
ALPHABET = [("create", "f2003"), ("create", "f2008"), ("parse", "valid", 0), ("parse", "valid", 4), ("parse", "valid", 7),
            ("parse", "invalid", 0), ("parse", "invalid", 1), ("parse", "invalid", 2), ("parse", "f08", 16),
            ("parse", "f08", 5)]
FINALS = [("f2003", "valid", 0, {}), ("f2003", "valid", 1, {}), ("f2008", "valid", 4, {}), ("f2003", "valid", 3, {}),
          ("f2003", "invalid", 4, {}), ("f2003", "valid", 5, {}), ("f2008", "valid", 6, {"ignore_comments": False}),
          ("f2003", "f08", 16, {}), ("f2003", "f08", 1, {}), ("f2008", "f08", 16, {}), ("f2003", "f08", 8, {}),
          ("f2003", "f08", 0, {}), ("f2003", "f08", 5, {}), ("f2008", "f08", 3, {}), ("f2003", "f08", 6, {}),
          ("f2003", "f08", 17, {}), ("f2008", "valid", 7, {}), ("f2003", "valid", 7, {})]


def n_enum(maxlen):
    return sum(len(ALPHABET) ** k for k in range(1, maxlen + 1))


def enum_history(j, maxlen):
    for k in range(1, maxlen + 1):
        n = len(ALPHABET) ** k
        if j < n:
            h = []
            for _ in range(k):
                h.append(ALPHABET[j % len(ALPHABET)])
                j //= len(ALPHABET)
            return h
        j -= n
    return None


def make_payload(rng, idx, tier):
    maxlen = TIERS[tier]["maxlen"]
    chunk = 8
    nchunks = (n_enum(maxlen) + chunk - 1) // chunk
    budget_enum = int(TIERS[tier]["cases"] * 0.6)
    if idx < budget_enum:
        # spread the enumeration over the available cases
        per = (nchunks + budget_enum - 1) // budget_enum
        return {"mode": "enum", "maxlen": maxlen, "chunks": [idx * per + k for k in range(per) if idx * per + k < nchunks], "chunk": chunk}
    if rng.random() < 0.5:
        return {"mode": "random", "seed": rng.getrandbits(48), "n": 6}
    return {"mode": "diff", "seed": rng.getrandbits(48), "n": 4}


def compare(a, b):
    for k in ("status", "exc", "text", "shape", "tables", "depth"):
        if a.get(k) != b.get(k):
            return k
    return None


def after_history(hist, pr, finals, mons, tally):
    """Returns list of violations for history hist."""
    viols = []
    fp.SYMBOL_TABLES.clear()
    observe.parser = None
    before_names = None
    for op in hist:
        if op[0] == "create":
            create(op[1])
            continue
        if observe.parser is None:
            continue
        names0 = monitors.top_table_names()
        o = observe(pr[op[1]][op[2]], {"_f2py": True} if op[1] == "f2py" else None)
        if o["status"] == "step-budget-exceeded":
            # aborted by the monitor, not by the parser: whatever is left open is the harness' doing
            fp.SYMBOL_TABLES.clear()
        elif o["status"] != "tree":
            mons["failing_parses_checked"] += 1
            v = leftovers(o, names0, pr[op[1]][op[2]], hist)
            if v:
                viols.append(v)
    for std, kind, i, opts in finals:
        create(std)
        got = observe(pr[kind][i], opts)
        ref = reference(std, kind, i, opts)
        mons["observed_parses"] += 1
        d = compare(got, ref)
        if d:
            viols.append(viol("history-dependent-result:" + d,
                              "after history %s, create(%s); parse(%s %d) differs from a fresh process in %r: %r vs fresh %r" % (
                                  _h(hist), std, kind, i, d, str(got.get(d))[:200], str(ref.get(d))[:200]),
                              payload={"mode": "one", "hist": hist, "final": [std, kind, i, opts]}))
            break
    return viols


def leftovers(o, names0, text, hist):
    depth = o["depth"]
    names1 = monitors.top_table_names()
    if depth != 0 or fp.SYMBOL_TABLES.current_scope is not None:
        cur = fp.SYMBOL_TABLES.current_scope
        v = viol("scope-left-open", "after the failing parse of %r the current scope is %r (depth %d)" % (
            text[:120], cur.name if cur is not None else None, depth), payload={"mode": "leak", "text": text})
        # restore a sane state for the rest of the history
        fp.SYMBOL_TABLES.clear()
        return v
    if names1 != names0:
        return viol("tables-left-behind", "after the failing parse of %r the top-level tables are %s, before it %s" % (
            text[:120], names1, names0), payload={"mode": "leak", "text": text})
    return None


def _h(hist):
    return "[" + ", ".join("%s(%s)" % (o[0], ",".join(str(x) for x in o[1:3])) for o in hist) + "]"


def check(payload):
    pr = probes()
    viols, digs = [], []
    mons = {"observed_parses": 0, "failing_parses_checked": 0, "histories": 0}
    tally = {"mode": [payload["mode"]]}
    seen = set()

    def add(vs):
        for v in vs:
            if v["key"] not in seen:
                seen.add(v["key"])
                viols.append(v)

    try:
        if payload["mode"] == "leak":
            create("f2003")
            names0 = monitors.top_table_names()
            o = observe(payload["text"])
            if o["status"] != "tree":
                v = leftovers(o, names0, payload["text"], [])
                if v:
                    viols.append(v)
            return {"violations": viols, "digests": [], "monitors": mons, "tally": tally}
        if payload["mode"] == "one":
            hist = [tuple(x) for x in payload["hist"]]
            f = payload["final"]
            vs = after_history(hist, pr, [(f[0], f[1], f[2], f[3])], mons, tally)
            add([v for v in vs if v["key"].startswith("history-dependent")])
            return {"violations": viols, "digests": [], "monitors": mons, "tally": tally}
        if payload["mode"] == "enum":
            for c in payload["chunks"]:
                for j in range(c * payload["chunk"], (c + 1) * payload["chunk"]):
                    hist = enum_history(j, payload["maxlen"])
                    if hist is None:
                        break
                    finals = [FINALS[(j + k * 5) % len(FINALS)] for k in range(3)]
                    vs = after_history(hist, pr, finals, mons, tally)
                    mons["histories"] += 1
                    add(vs)
                    if any(op[0] == "parse" for op in hist):
                        digs.append(digest(hist, finals))
        elif payload["mode"] == "random":
            r = random.Random(payload["seed"])
            for _ in range(payload["n"]):
                hist = []
                for _ in range(r.randint(1, 8)):
                    c = r.random()
                    if c < 0.25:
                        hist.append(("create", r.choice(["f2003", "f2008"])))
                    elif c < 0.45:
                        hist.append(("parse", "valid", r.randrange(len(pr["valid"]))))
                    elif c < 0.53:
                        hist.append(("parse", "fixed", r.randrange(len(pr["fixed"]))))
                    elif c < 0.57:
                        hist.append(("parse", "f2py", r.randrange(len(pr["f2py"]))))
                    elif c < 0.67:
                        hist.append(("parse", "f08", r.randrange(len(pr["f08"]))))
                    else:
                        hist.append(("parse", "invalid", r.randrange(len(pr["invalid"]))))
                if hist[0][0] != "create" and r.random() < 0.8:
                    hist.insert(0, ("create", r.choice(["f2003", "f2008"])))
                finals = []
                for _ in range(3):
                    kind = r.choice(["valid", "valid", "valid", "valid", "invalid", "f08", "f08", "fixed", "f2py"])
                    o2 = r.choice([{}, {}, {"ignore_comments": False}, {"ignore_comments": False, "process_directives": True}])
                    if kind == "f2py":
                        o2 = dict(o2, _f2py=True)
                    finals.append((r.choice(["f2003", "f2008"]), kind, r.randrange(len(pr[kind])), o2))
                vs = after_history(hist, pr, finals, mons, tally)
                mons["histories"] += 1
                add(vs)
                digs.append(digest(hist, finals))
        else:  # diff: session A vs session B (failing parses deleted)
            r = random.Random(payload.get("seed", 0))
            for _ in range(payload.get("n", 1)):
                std = r.choice(["f2003", "f2008"])
                ops = []
                for _ in range(r.randint(2, 7)):
                    kind = "valid" if r.random() < 0.5 else "invalid"
                    ops.append(("parse", kind, r.randrange(len(pr[kind]))))
                if payload["mode"] == "diffone":
                    std, ops = payload["std"], [tuple(o) for o in payload["ops"]]
                fp.SYMBOL_TABLES.clear()
                create(std)
                obsA = [observe(pr[o[1]][o[2]]) for o in ops]
                mons["observed_parses"] += len(ops)
                keep = [k for k, o in enumerate(obsA) if o["status"] == "tree"]
                # sanitise state the way a user could not: only for the harness' own next session
                fp.SYMBOL_TABLES.clear()
                create(std)
                obsB = [observe(pr[ops[k][1]][ops[k][2]]) for k in keep]
                mons["failing_parses_checked"] += len(ops) - len(keep)
                mons["histories"] += 1
                for k, b in zip(keep, obsB):
                    d = compare(obsA[k], b)
                    if d:
                        add([viol("failed-parse-changes-later-result:" + d,
                                  "session %s under %s: result of op %d differs in %r once the failing parses are deleted: %r vs %r" % (
                                      _h(ops), std, k, d, str(obsA[k].get(d))[:160], str(b.get(d))[:160]),
                                  payload={"mode": "diffone", "std": std, "ops": ops})])
                        break
                if len(keep) < len(ops):
                    digs.append(digest("diff", std, ops))
    finally:
        fp.SYMBOL_TABLES.clear()
    return {"violations": viols, "digests": digs, "monitors": mons, "tally": tally,
            "evaluations": max(1, mons["histories"]),
            "sample": {"mode": payload["mode"], "alphabet": [_h([a]) for a in ALPHABET]}}


def _ref_main(argv):
    std, kind, i, opts = argv[0], argv[1], int(argv[2]), json.loads(argv[3])
    pr = probes()
    with monitors.NewMonitor(budget=3_000_000):
        create(std)
        print(json.dumps(observe(pr[kind][i], opts)))


if __name__ == "__main__":
    if sys.argv[1] == "--ref":
        _ref_main(sys.argv[2:])
