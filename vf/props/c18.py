"""C18 deepcopy / pickle fidelity."""
import os
import copy
import pickle
import random
import shutil
import tempfile

from ..common import parse_monitored, payload_program, program_payload, digest
from ..canon import shape, wellformed, iter_nodes, norm_text, first_diff
from .base import gen_program, viol, shrink_program
from .. import layout, fp

ID = "C18"
LEVEL = "exploration"
TIERS = {"quick": {"cases": 1200, "wall": 80, "min_nontrivial": 200},
         "thorough": {"cases": 30000, "wall": 1200, "min_nontrivial": 4000}}
RULE = ("generator -> valid program, decorated with comments, directive comments, unresolved INCLUDE lines and "
        "preprocessor lines; string reader for every configuration, plus per program one file-reader-backed tree and one tree "
        "with an INCLUDE line resolved from a scratch directory (violations there carry the reader kind in their key); std in {f2003,f2008}; comments dropped / kept / directives processed; "
        "oracle: deepcopy and pickle round trip succeed, str and shape equal, copy is well formed (C10 invariants), node "
        "identity sets disjoint, mutating the copy (rename every Name, drop the last child of every block) leaves "
        "str(original) unchanged; non-trivial = tree with >= 50 nodes; distinct by SHA-1 of (source, config)")
ASSUMPTIONS = ["the file-backed variants read a scratch file the check writes itself (a .f90 file, free form stated explicitly)"]
# reader kinds: string reader; file reader on a scratch file; string reader with an INCLUDE line resolved from a scratch directory
# (the included file holds one comment line, so it is valid wherever a statement ends)
READERS = ("string", "file", "include")
DECIDING_MONITORS = ("copies_checked",)

CONFIGS = [dict(ignore_comments=True), dict(ignore_comments=False), dict(ignore_comments=False, process_directives=True)]
EXTRA_LINES = ["include 'nofile.inc'", '#define VF_X 1', "#ifdef VF_X", "#endif", "#include \"vf.h\"", "# 12 \"f.F90\" 2"]


def make_payload(rng, idx, tier):
    P, meta = gen_program(rng, tier)
    meta["comments_seed"] = rng.getrandbits(32)
    return program_payload(P, **meta)


def render(P, ci, cseed):
    opts = CONFIGS[ci]
    rng = random.Random(cseed)
    text, info = layout.render(P, rng, dict(p_cont=0.0, comments=not opts["ignore_comments"]))
    # sprinkle unresolved includes / cpp lines between statements at depth>=1 boundaries
    lines = text.split("\n")
    out = []
    last = set(info["stmt_last"])
    for k, l in enumerate(lines, 1):
        out.append(l)
        if k in last and rng.random() < 0.06:
            out.append(rng.choice(EXTRA_LINES))
    return "\n".join(out)


def mutate(tree):
    from fparser.two.Fortran2003 import Name

    for n in list(iter_nodes(tree)):
        if isinstance(n, Name):
            n.string = n.string + "_zz"
        c = getattr(n, "content", None)
        if isinstance(c, list) and len(c) > 2:
            del c[len(c) // 2]


def _reader(src, ci, rk, tmp):
    from fparser.common.sourceinfo import FortranFormat

    opts = CONFIGS[ci]
    if rk == "file":
        path = os.path.join(tmp, "vf_c18.f90")
        with open(path, "w") as f:
            f.write(src + "\n")
        reader = fp.FortranFileReader(path, **opts)
    else:
        with open(os.path.join(tmp, "vf_c18.inc"), "w") as f:
            f.write("! comment line of the included file\n")
        reader = fp.FortranStringReader(src, include_dirs=[tmp], **opts)
    reader.set_format(FortranFormat(True, False))
    return reader


def one(P, std, ci, cseed, mons=None, raw=None, rk="string"):
    src = render(P, ci, cseed) if raw is None else raw
    if rk == "include" and raw is None:
        # the INCLUDE line goes after the first statement line that ends a statement
        _, info = layout.render(P, random.Random(cseed), dict(p_cont=0.0, comments=not CONFIGS[ci]["ignore_comments"]))
        lines = src.split("\n")
        last = [k for k, l in enumerate(lines) if l.strip() and not l.lstrip().startswith(("!", "#", "include"))]
        at = last[len(last) // 2] if last else 0
        lines.insert(at + 1, "include 'vf_c18.inc'")
        src = "\n".join(lines)
    if rk == "string":
        return _one(src, std, ci, mons, None, "")
    tmp = tempfile.mkdtemp(prefix="vf_c18_")
    try:
        return _one(src, std, ci, mons, _reader(src, ci, rk, tmp), rk + "-reader:")
    finally:
        shutil.rmtree(tmp, ignore_errors=True)


def _one(src, std, ci, mons, reader, kp):
    r = parse_monitored(src, std, reader=reader, conserve=False, **({} if reader is not None else CONFIGS[ci]))
    if r.error is not None:
        if reader is not None:
            # only a violation when the same text (the INCLUDE line replaced by the included comment) is accepted from a string
            ref = src.replace("include 'vf_c18.inc'", "! comment line of the included file")
            if parse_monitored(ref, std, conserve=False, **CONFIGS[ci]).error is None:
                return viol(kp + "rejected", "(%s, %s) source accepted from a string is rejected: %s" % (std, CONFIGS[ci], str(r.error)[:120])), src, 0
        return None, src, 0
    T = r.tree
    s0, sh0 = str(T), shape(T)
    ids0 = {id(n) for n in iter_nodes(T)}
    tag = "(%s, %s)" % (std, CONFIGS[ci])

    def kviol(key, detail):  # reader kind in front of the mechanism key
        return viol(kp + key, detail)

    for how in ("deepcopy", "pickle"):
        try:
            C = copy.deepcopy(T) if how == "deepcopy" else pickle.loads(pickle.dumps(T))
        except fp.FortranSyntaxError:
            raise
        except Exception as e:
            fr = fp.fparser_frames(e.__traceback__)
            where = fr[-1][0] if fr else "?"
            return kviol("%s-raises:%s" % (how, type(e).__name__), "%s %s raised %s: %s in %s" % (tag, how, type(e).__name__, str(e)[:120], where)), src, len(ids0)
        if mons is not None:
            mons["copies_checked"] += 1
        if str(C) != s0:
            return kviol(how + "-text-differs", "%s str(copy) != str(tree)" % tag), src, len(ids0)
        shc = shape(C)
        if shc != sh0:
            return kviol(how + "-shape-differs", "%s %s" % (tag, first_diff(sh0, shc))), src, len(ids0)
        probs, _ = wellformed(C, check_walk=False)
        if probs:
            return kviol(how + "-copy-malformed:" + probs[0][0], "%s %s" % (tag, probs[0][1])), src, len(ids0)
        idsc = {id(n) for n in iter_nodes(C)}
        if ids0 & idsc:
            return kviol(how + "-shares-nodes", "%s %d node objects shared with the original" % (tag, len(ids0 & idsc))), src, len(ids0)
        mutate(C)
        if str(T) != s0:
            return kviol(how + "-mutation-leaks", "%s mutating the copy changed str(original)" % tag), src, len(ids0)
    return None, src, len(ids0)


def check(payload):
    if payload.get("mode") == "source":
        v, _, _ = one(None, payload["std"], payload.get("ci", 1), 0, {"copies_checked": 0}, raw=payload["text"], rk=payload.get("rk", "string"))
        return {"violations": [v] if v else [], "digests": [], "monitors": {"copies_checked": 1}, "tally": {}}
    P = payload_program(payload)
    std = payload["std"]
    cseed = payload.get("comments_seed", 0)
    viols, digs = [], []
    mons = {"copies_checked": 0}
    seen = set()
    runs = [(ci, "string") for ci in range(len(CONFIGS))] + [(cseed % 3, "file"), ((cseed // 3) % 3, "include")]
    for ci, rk in runs:
        v, src, n = one(P, std, ci, cseed, mons, rk=rk)
        if v is None:
            if n >= 50:
                digs.append(digest(src, std, ci, rk))
            continue
        if v["key"] in seen:
            continue
        seen.add(v["key"])
        key = v["key"]

        def still(Q, ci=ci, key=key, rk=rk):
            w, _, _ = one(Q, std, ci, cseed, rk=rk)
            return w is not None and w["key"] == key

        Q = shrink_program(P, still, budget=60)
        w, qsrc, _ = one(Q, std, ci, cseed, rk=rk)
        v["shrunk"] = {"source": qsrc, "detail": w["detail"] if w else None}
        v["payload"] = dict(payload, program=Q.to_json())
        viols.append(v)
    return {"violations": viols, "digests": digs, "tally": {"stmt_kinds": P.kinds()}, "monitors": mons,
            "sample": {"std": std, "source": render(P, 1, cseed)[:1200]}}
