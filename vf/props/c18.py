"""C18 deepcopy / pickle fidelity."""
import copy
import pickle
import random

from ..common import parse_monitored, payload_program, program_payload, digest
from ..canon import shape, wellformed, iter_nodes, norm_text, first_diff
from .base import gen_program, viol, shrink_program
from .. import layout, fp

ID = "C18"
LEVEL = "exploration"
TIERS = {"quick": {"cases": 1200, "wall": 80, "min_nontrivial": 200},
         "thorough": {"cases": 30000, "wall": 1200, "min_nontrivial": 4000}}
RULE = ("generator -> valid program, decorated with comments, directive comments, unresolved INCLUDE lines and "
        "preprocessor lines; string reader; std in {f2003,f2008}; comments dropped / kept / directives processed; "
        "oracle: deepcopy and pickle round trip succeed, str and shape equal, copy is well formed (C10 invariants), node "
        "identity sets disjoint, mutating the copy (rename every Name, drop the last child of every block) leaves "
        "str(original) unchanged; non-trivial = tree with >= 50 nodes; distinct by SHA-1 of (source, config)")
ASSUMPTIONS = ["trees come from string readers, as the property states"]
DECIDING_MONITORS = ("copies_checked",)

CONFIGS = [dict(ignore_comments=True), dict(ignore_comments=False), dict(ignore_comments=False, process_directives=True)]
EXTRA_LINES = ["include 'nofile.inc'", '#define VF_X 1', "#ifdef VF_X", "#endif", "#include \"vf.h\"", "# 12 \"f.F90\" 2"]


def make_payload(rng, idx, tier):
    P, meta = gen_program(rng, tier)
    meta["comments_seed"] = rng.getrandbits(32)
    return program_payload(P, **meta)


def render(P, ci, cseed):
    opts = CONFIGS[ci]
    rng = random.Random(cseed)
    text, info = layout.render(P, rng, dict(p_cont=0.0, comments=not opts["ignore_comments"]))
    # sprinkle unresolved includes / cpp lines between statements at depth>=1 boundaries
    lines = text.split("\n")
    out = []
    last = set(info["stmt_last"])
    for k, l in enumerate(lines, 1):
        out.append(l)
        if k in last and rng.random() < 0.06:
            out.append(rng.choice(EXTRA_LINES))
    return "\n".join(out)


def mutate(tree):
    from fparser.two.Fortran2003 import Name

    for n in list(iter_nodes(tree)):
        if isinstance(n, Name):
            n.string = n.string + "_zz"
        c = getattr(n, "content", None)
        if isinstance(c, list) and len(c) > 2:
            del c[len(c) // 2]


def one(P, std, ci, cseed, mons=None, raw=None):
    src = render(P, ci, cseed) if raw is None else raw
    r = parse_monitored(src, std, conserve=False, **CONFIGS[ci])
    if r.error is not None:
        return None, src, 0
    T = r.tree
    s0, sh0 = str(T), shape(T)
    ids0 = {id(n) for n in iter_nodes(T)}
    tag = "(%s, %s)" % (std, CONFIGS[ci])
    for how in ("deepcopy", "pickle"):
        try:
            C = copy.deepcopy(T) if how == "deepcopy" else pickle.loads(pickle.dumps(T))
        except fp.FortranSyntaxError:
            raise
        except Exception as e:
            fr = fp.fparser_frames(e.__traceback__)
            where = fr[-1][0] if fr else "?"
            return viol("%s-raises:%s" % (how, type(e).__name__), "%s %s raised %s: %s in %s" % (tag, how, type(e).__name__, str(e)[:120], where)), src, len(ids0)
        if mons is not None:
            mons["copies_checked"] += 1
        if str(C) != s0:
            return viol(how + "-text-differs", "%s str(copy) != str(tree)" % tag), src, len(ids0)
        shc = shape(C)
        if shc != sh0:
            return viol(how + "-shape-differs", "%s %s" % (tag, first_diff(sh0, shc))), src, len(ids0)
        probs, _ = wellformed(C, check_walk=False)
        if probs:
            return viol(how + "-copy-malformed:" + probs[0][0], "%s %s" % (tag, probs[0][1])), src, len(ids0)
        idsc = {id(n) for n in iter_nodes(C)}
        if ids0 & idsc:
            return viol(how + "-shares-nodes", "%s %d node objects shared with the original" % (tag, len(ids0 & idsc))), src, len(ids0)
        mutate(C)
        if str(T) != s0:
            return viol(how + "-mutation-leaks", "%s mutating the copy changed str(original)" % tag), src, len(ids0)
    return None, src, len(ids0)


def check(payload):
    if payload.get("mode") == "source":
        v, _, _ = one(None, payload["std"], payload.get("ci", 1), 0, {"copies_checked": 0}, raw=payload["text"])
        return {"violations": [v] if v else [], "digests": [], "monitors": {"copies_checked": 1}, "tally": {}}
    P = payload_program(payload)
    std = payload["std"]
    cseed = payload.get("comments_seed", 0)
    viols, digs = [], []
    mons = {"copies_checked": 0}
    seen = set()
    for ci in range(len(CONFIGS)):
        v, src, n = one(P, std, ci, cseed, mons)
        if v is None:
            if n >= 50:
                digs.append(digest(src, std, ci))
            continue
        if v["key"] in seen:
            continue
        seen.add(v["key"])
        key = v["key"]

        def still(Q, ci=ci, key=key):
            w, _, _ = one(Q, std, ci, cseed)
            return w is not None and w["key"] == key

        Q = shrink_program(P, still, budget=60)
        w, qsrc, _ = one(Q, std, ci, cseed)
        v["shrunk"] = {"source": qsrc, "detail": w["detail"] if w else None}
        v["payload"] = dict(payload, program=Q.to_json())
        viols.append(v)
    return {"violations": viols, "digests": digs, "tally": {"stmt_kinds": P.kinds()}, "monitors": mons,
            "sample": {"std": std, "source": render(P, 1, cseed)[:1200]}}
