"""Parent process of a check: shards cases over worker subprocesses, merges
results, classifies violations against known_findings.json, writes evidence,
prints VIOLATION / KNOWN-FINDING lines and sets the exit code.

exit 0  held on everything explored (possibly with KNOWN-FINDING lines)
exit 1  at least one violation not listed in known_findings.json
exit 2  inconclusive (deciding monitor never reached, too few cases, watchdog)
"""
import os
import sys
import json
import time
import hashlib
import argparse
import importlib
import subprocess
import collections

HERE = os.path.dirname(os.path.dirname(os.path.abspath(__file__)))
OUT = os.path.join(HERE, "out")
EVID = os.environ.get("VF_EVIDENCE_DIR") or os.path.join(HERE, "evidence")
PY = "/venv/bin/python"


def load_prop(pid):
    return importlib.import_module("vf.props." + pid.lower())


def load_findings():
    with open(os.path.join(HERE, "known_findings.json")) as f:
        return json.load(f)


def _replay_path(pid, viol):
    h = hashlib.sha1((viol.get("key", "") + json.dumps(viol.get("payload"), sort_keys=True, default=str)).encode()).hexdigest()[:12]
    d = os.path.join(OUT, "replay")
    os.makedirs(d, exist_ok=True)
    return os.path.join(d, "%s-%s.json" % (pid, h))


def run_replay(pid, path):
    mod = load_prop(pid)
    with open(path) as f:
        rec = json.load(f)
    payload = rec["payload"] if "payload" in rec else rec
    from .worker import run_payload

    res = run_payload(mod, payload)
    print(json.dumps({"status": res["status"], "violations": res.get("violations")}, indent=1, default=str))
    viols = res.get("violations") or []
    if viols:
        findings = [f for f in load_findings()["findings"] if f["property"] == pid and f["status"] == "open"]
        keys = {f["key"] for f in findings}
        unl = [v for v in viols if v["key"] not in keys]
        for v in viols:
            if v["key"] in keys:
                print("KNOWN-FINDING: property=%s %s" % (pid, v["key"]))
        if unl:
            print("VIOLATION property=%s replay=%s" % (pid, path))
            return 1
    return 0


def main(argv=None):
    ap = argparse.ArgumentParser()
    ap.add_argument("prop")
    ap.add_argument("--tier", default=os.environ.get("VERIF_TIER", "quick"))
    ap.add_argument("--seed", type=int, default=int(os.environ.get("VERIF_SEED", "0")))
    ap.add_argument("--replay")
    ap.add_argument("--cases", type=int)
    ap.add_argument("--wall", type=float)
    ap.add_argument("--workers", type=int, default=int(os.environ.get("VF_WORKERS", "16")))
    args = ap.parse_args(argv)
    pid = args.prop.upper()
    if pid == "SELFTEST":
        from .selftest import main as st

        return st()
    if args.replay:
        return run_replay(pid, args.replay)
    mod = load_prop(pid)
    tier = args.tier if args.tier in ("quick", "thorough") else "quick"
    cfg = dict(mod.TIERS[tier])
    if args.cases:
        cfg["cases"] = args.cases
    if args.wall:
        cfg["wall"] = args.wall
    ncases, wall = cfg["cases"], cfg["wall"]
    nw = max(1, min(args.workers, ncases))
    os.makedirs(os.path.join(OUT, "run"), exist_ok=True)
    t0 = time.time()
    procs = []
    env = dict(os.environ)
    env["PYTHONHASHSEED"] = "0"
    env["PYTHONPATH"] = HERE + os.pathsep + env.get("PYTHONPATH", "")
    for sh in range(nw):
        outp = os.path.join(OUT, "run", "%s.%d.%d.jsonl" % (pid, os.getpid(), sh))
        cmd = [PY, "-m", "vf.worker", pid, tier, str(args.seed), str(sh), str(nw), str(ncases), str(wall), outp]
        procs.append((subprocess.Popen(cmd, env=env, cwd=HERE, stdout=subprocess.DEVNULL, stderr=subprocess.PIPE), outp, sh))
    deadline = t0 + wall * 2.5 + 120
    killed = []
    errs = []
    for p, outp, sh in procs:
        left = max(1.0, deadline - time.time())
        try:
            _, err = p.communicate(timeout=left)
        except subprocess.TimeoutExpired:
            p.kill()
            _, err = p.communicate()
            killed.append(sh)
        if p.returncode not in (0, None) and sh not in killed:
            errs.append((sh, p.returncode, (err or b"").decode(errors="replace")[-2000:]))

    # ---- merge
    evaluations = 0
    digests = set()
    tallies = collections.defaultdict(collections.Counter)
    monitors = collections.Counter()
    samples = []
    violations = []
    inconclusive = []
    summaries = 0
    idx_done = 0
    last_idxs = []
    extra = {}
    for p, outp, sh in procs:
        if not os.path.exists(outp):
            continue
        with open(outp) as f:
            for line in f:
                try:
                    rec = json.loads(line)
                except ValueError:
                    continue
                t = rec.get("t")
                if t == "viol":
                    violations.append(rec)
                elif t == "inc":
                    inconclusive.append(rec)
                elif t == "sum":
                    summaries += 1
                    idx_done += rec.get("idx_done", 0)
                    last_idxs.append(rec.get("last_idx", -1))
                    evaluations += rec["evaluations"]
                    digests.update(rec["digests"])
                    for k, c in rec["tallies"].items():
                        tallies[k].update(c)
                    monitors.update(rec["monitors"])
                    samples.extend(rec["samples"])
                    for k, v in rec.get("extra", {}).items():
                        extra.setdefault(k, []).append(v)
        os.remove(outp)

    # ---- classify
    kf = load_findings()
    open_f = [f for f in kf["findings"] if f["property"] == pid and f["status"] == "open"]
    open_keys = {f["key"]: f for f in open_f}
    absorbed = collections.Counter()
    unlisted = []
    for v in violations:
        if v["key"] in open_keys:
            absorbed[v["key"]] += 1
        else:
            unlisted.append(v)

    # pinned reproducers of open findings (run in-process via a worker helper)
    still_failing = {}
    has_pins = any(f["property"] == pid and f.get("reproducer") is not None for f in kf["findings"])
    if open_f or has_pins:
        pin = subprocess.run([PY, "-m", "vf.worker", "--pinned", pid], env=env, cwd=HERE,
                             capture_output=True, timeout=900)
        try:
            pres = json.loads(pin.stdout.decode().strip().split("\n")[-1])
            still_failing = pres["open"]
            for reg in pres["regressions"]:
                unlisted.append(reg)
        except Exception:
            errs.append(("pinned", pin.returncode, pin.stderr.decode(errors="replace")[-2000:]))
    for f in open_f:
        st = still_failing.get(f["key"])
        if st or absorbed[f["key"]]:
            print("KNOWN-FINDING: property=%s %s: %s" % (pid, f["key"], f["what"]))

    # fixed entries that re-appear are ordinary violations (nothing suppressed)
    seen_keys = set()
    vlines = []
    for v in unlisted:
        path = _replay_path(pid, v)
        with open(path, "w") as f:
            json.dump(v, f, indent=1, default=str)
        if v["key"] not in seen_keys or len(vlines) < 20:
            vlines.append("VIOLATION property=%s replay=%s  # %s: %s" % (pid, path, v["key"], str(v.get("detail"))[:200]))
        seen_keys.add(v["key"])
    for l in vlines[:40]:
        print(l)

    wall_s = time.time() - t0
    min_nontrivial = cfg.get("min_nontrivial", 2)
    reasons = []
    if killed:
        reasons.append("watchdog killed shard(s) %s" % killed)
    if errs:
        reasons.append("worker error: %s" % errs[:2])
    if summaries < nw - len(killed):
        reasons.append("missing worker summaries (%d of %d)" % (summaries, nw))
    if len(digests) < min_nontrivial:
        reasons.append("only %d distinct non-trivial cases (< %d)" % (len(digests), min_nontrivial))
    for m in getattr(mod, "DECIDING_MONITORS", ()):
        if monitors.get(m, 0) == 0:
            reasons.append("deciding monitor %s observed nothing" % m)
    ninc = len(inconclusive)
    if evaluations and ninc > max(5, 0.02 * evaluations):
        reasons.append("%d of %d cases inconclusive" % (ninc, evaluations))

    coverage = {
        "evaluations": evaluations,
        "distinct_nontrivial": len(digests),
        "rule": mod.RULE,
        "samples": samples[:6] if samples else ["<none>"],
        "monitor_events": dict(monitors),
        "tallies": {k: dict(c.most_common(80)) for k, c in tallies.items()},
        "known_findings_absorbed": dict(absorbed),
        "known_findings_pinned_still_failing": {k: bool(v) for k, v in still_failing.items()},
        "fixed_findings_replayed": sum(1 for f in kf["findings"] if f["property"] == pid and f["status"] == "fixed" and f.get("reproducer") is not None),
        "inconclusive_cases": ninc,
        "inconclusive_samples": ["case idx %s: %s" % (i.get("idx"), i.get("detail")) for i in inconclusive[:5]],
        "unlisted_violation_keys": dict(collections.Counter(v["key"] for v in unlisted)),
        "workers": nw,
        "inconclusive_reasons": reasons,
    }
    coverage["cases_planned"] = ncases
    coverage["cases_started"] = idx_done
    if getattr(mod, "EXHAUSTIVE", None):
        enum_cases = getattr(mod, "ENUM_CASES", {}).get(tier)
        if enum_cases is None:
            complete = True     # exhaustive per generated program; every started case is complete in itself
        else:
            enum_cases = min(enum_cases(ncases) if callable(enum_cases) else enum_cases, ncases)
            complete = len(last_idxs) == nw and all(li + nw >= enum_cases for li in last_idxs)
        coverage["exhaustive"] = bool(mod.EXHAUSTIVE.get(tier, False)) and complete
        coverage["exhaustive_note"] = mod.EXHAUSTIVE.get("note", "") + (
            "" if complete else " -- NOT complete in this run: the wall budget ended it after %d of %d cases" % (idx_done, ncases))
        coverage["enumeration_cases"] = enum_cases
    for k, v in extra.items():
        coverage["extra_" + k] = v[:16]
    ev = {
        "property_id": pid,
        "tier": tier,
        "seed": args.seed,
        "level": mod.LEVEL,
        "coverage": coverage,
        "assumptions": list(getattr(mod, "ASSUMPTIONS", [])),
        "wall_s": round(wall_s, 2),
        "violations": len(unlisted),
    }
    os.makedirs(EVID, exist_ok=True)
    with open(os.path.join(EVID, pid + ".json"), "w") as f:
        json.dump(ev, f, indent=1, default=str)

    print("%s tier=%s seed=%d evaluations=%d distinct_nontrivial=%d absorbed=%d unlisted=%d inconclusive=%d wall=%.1fs"
          % (pid, tier, args.seed, evaluations, len(digests), sum(absorbed.values()), len(unlisted), ninc, wall_s))
    if unlisted:
        return 1
    if reasons:
        print("INCONCLUSIVE reason=%s" % "; ".join(reasons))
        return 2
    return 0


if __name__ == "__main__":
    sys.exit(main())
