"""Regenerates MANIFEST.json from the property modules present in vf/props."""
import os
import json
import importlib

HERE = os.path.dirname(os.path.dirname(os.path.abspath(__file__)))

TECH = {
    "C01": "runtime monitoring: generated valid programs -> parse / print / re-parse oracle on the real parser (metamorphic fixpoint)",
    "C02": "runtime monitoring: reference-model oracle (token stream known by construction vs independent lexer of the output) + reader-item conservation monitor + string_replace_map losslessness monitor",
    "C03": "runtime monitoring: bounded-exhaustive + random expression workloads, reference-model oracle (grouping known from the grammar derivation)",
    "C04": "runtime monitoring: metamorphic oracle over enumerated and random free-form layouts of the same statements",
    "C05": "runtime monitoring: metamorphic oracle fixed-form rendering vs free-form rendering; detector observed at the reader",
    "C06": "runtime monitoring: mutation/random/byte-level hostile inputs, exception-and-termination monitor at the API boundary with a logical step budget (constructor-call counter)",
    "C07": "fault enumeration under runtime monitoring: every statement position replaced by garbage, error location oracle",
    "C08": "fault enumeration under runtime monitoring: every single structural mutation of listed classes, accept/reject oracle + reader-item conservation monitor",
    "C09": "runtime monitoring of histories: exhaustive short histories + random long ones in one live process, compared with fresh-process references; scope/table invariants checked after every failing parse",
    "C10": "runtime monitoring: structural invariant checker (own traversal) on every tree produced",
    "C11": "runtime monitoring: reference-model oracle (inserted comments known by construction) over tree order, regenerated text and reader-item conservation",
    "C12": "runtime monitoring: reference-model oracle on reader items + push-back trace checker (random read-ahead walks; the parser as consumer under the stream monitor)",
    "C13": "runtime monitoring: metamorphic oracle (include split vs original) with real files, include-path order and unresolved-include cases, stream monitor across include boundaries",
    "C14": "runtime monitoring: metamorphic oracle (program with inserted preprocessor lines vs original) + payload comparison + conservation",
    "C15": "runtime monitoring: metamorphic oracle (sentinel-hidden statements enabled / disabled vs original / original minus S)",
    "C16": "runtime monitoring: reference-model oracle (scope tree and shadowing known by construction) on SYMBOL_TABLES and node classes, scope-event monitor",
    "C17": "runtime monitoring: differential oracle f2003 vs f2008 parser on generated F2003 programs and on spliced F2008-only constructs",
    "C18": "runtime monitoring: deepcopy / pickle round trip with structural, identity and mutation-isolation oracles",
    "C19": "runtime monitoring: fparser1 parse / print / re-parse oracle with structure (walk) and statement-text comparison",
    "C20": "runtime monitoring: deterministic step counters (constructor calls via wrapper, python calls via sys.monitoring) over size-indexed input families, growth-ratio oracle",
}
LEVEL_TEXT = {
    "exploration": "held on the executions observed: the real parser/reader runs on generated, hostile workloads and a deterministic oracle or "
                   "monitor decides every execution; no claim beyond the cases explored - counts, tallies and samples are in the evidence file. "
                   "Sub-spaces that are enumerated completely are marked exhaustive there.",
    "fault_enumeration": "for every generated program the listed fault class is enumerated exhaustively (every statement position / every "
                         "structural mutation), the real parser runs on each faulty input and the oracle decides; programs themselves are sampled.",
}


def main():
    props = [json.loads(l) for l in open(os.path.join(HERE, "properties.jsonl"))]
    checks, na = [], []
    for p in props:
        pid = p["id"]
        path = os.path.join(HERE, "vf", "props", pid.lower() + ".py")
        if not os.path.exists(path):
            na.append({"property_id": pid, "reason": "check not built yet (framework under construction; see DESIGN.md section 7)"})
            continue
        mod = importlib.import_module("vf.props." + pid.lower())
        checks.append({
            "property_id": pid,
            "quick_cmd": "./check %s --tier quick" % pid,
            "thorough_cmd": "./check %s --tier thorough" % pid,
            "evidence_file": "evidence/%s.json" % pid,
            "replay_cmd_template": "./check %s --replay {path}" % pid,
            "engine": "vf",
            "level_claimed": {
                "category": mod.LEVEL,
                "text": getattr(mod, "LEVEL_TEXT", LEVEL_TEXT[mod.LEVEL]),
                "design_ref": "DESIGN.md section 7 (%s)" % pid,
            },
            "level_note": "; ".join(getattr(mod, "ASSUMPTIONS", [])) or "generator validity",
            "technique": getattr(mod, "TECHNIQUE", TECH[pid]),
        })
    m = {
        "version": 1,
        "setup_cmd": "./check selftest",
        "hooks": {
            "guard": "FPARSER_VERIF",
            "enable": "no source hooks: every monitor is attached from the harness process by rebinding attributes of the "
                      "fparser modules imported from /repo/src (current working tree)",
            "baseline_off_cmd": "cd /repo && /venv/bin/python -m pytest -ra -q -p no:cacheprovider --timeout=900 --continue-on-collection-errors",
            "source_commits": [],
            "add_only": True,
        },
        "engines": [{"name": "vf", "path": "vf/", "serves_properties": [c["property_id"] for c in checks],
                     "kind_free_text": "python harness: grammar-directed program generator with ground truth, layout/"
                                       "mutation transformers, monitors attached to the real fparser (reader stream, scope "
                                       "stack, constructor counts, string_replace_map), sharded over 16 worker processes"}],
        "checks": checks,
        "not_applicable": na,
        "notes": "Exit 0 held / 1 unlisted violation / 2 inconclusive. known_findings.json lists genuine defects (open or fixed).",
    }
    with open(os.path.join(HERE, "MANIFEST.json"), "w") as f:
        json.dump(m, f, indent=1)
    print("checks:", [c["property_id"] for c in checks], "n/a:", len(na))


if __name__ == "__main__":
    main()
