"""Regenerates MANIFEST.json from the property modules present in vf/props."""
import os
import json
import importlib

HERE = os.path.dirname(os.path.dirname(os.path.abspath(__file__)))

TEXT = {}


def main():
    props = [json.loads(l) for l in open(os.path.join(HERE, "properties.jsonl"))]
    checks, na = [], []
    for p in props:
        pid = p["id"]
        path = os.path.join(HERE, "vf", "props", pid.lower() + ".py")
        if not os.path.exists(path):
            na.append({"property_id": pid, "reason": "check not built yet (framework under construction; see DESIGN.md section 7)"})
            continue
        mod = importlib.import_module("vf.props." + pid.lower())
        checks.append({
            "property_id": pid,
            "quick_cmd": "./check %s --tier quick" % pid,
            "thorough_cmd": "./check %s --tier thorough" % pid,
            "evidence_file": "evidence/%s.json" % pid,
            "replay_cmd_template": "./check %s --replay {path}" % pid,
            "engine": "vf",
            "level_claimed": {
                "category": mod.LEVEL,
                "text": getattr(mod, "LEVEL_TEXT", "held on the executions observed: the real parser/reader is run on generated "
                                "workloads and a deterministic oracle/monitor decides every execution; no claim beyond "
                                "the cases explored (counts in the evidence file)"),
                "design_ref": "DESIGN.md section 7 (%s)" % pid,
            },
            "level_note": "; ".join(getattr(mod, "ASSUMPTIONS", [])) or "generator validity",
            "technique": getattr(mod, "TECHNIQUE", "runtime monitoring: generated workload + oracle over observed executions"),
        })
    m = {
        "version": 1,
        "setup_cmd": "./check selftest",
        "hooks": {
            "guard": "FPARSER_VERIF",
            "enable": "no source hooks: every monitor is attached from the harness process by rebinding attributes of the "
                      "fparser modules imported from /repo/src (current working tree)",
            "baseline_off_cmd": "cd /repo && /venv/bin/python -m pytest -ra -q -p no:cacheprovider --timeout=900 --continue-on-collection-errors",
            "source_commits": [],
            "add_only": True,
        },
        "engines": [{"name": "vf", "path": "vf/", "serves_properties": [c["property_id"] for c in checks],
                     "kind_free_text": "python harness: grammar-directed program generator with ground truth, layout/"
                                       "mutation transformers, monitors attached to the real fparser (reader stream, scope "
                                       "stack, constructor counts, string_replace_map), sharded over 16 worker processes"}],
        "checks": checks,
        "not_applicable": na,
        "notes": "Exit 0 held / 1 unlisted violation / 2 inconclusive. known_findings.json lists genuine defects (open or fixed).",
    }
    with open(os.path.join(HERE, "MANIFEST.json"), "w") as f:
        json.dump(m, f, indent=1)
    print("checks:", [c["property_id"] for c in checks], "n/a:", len(na))


if __name__ == "__main__":
    main()
