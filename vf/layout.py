"""Free-form layout engine with ground truth.

render(P, rng, opts) -> (text, info)
info: stmt_first[i], stmt_last[i] (1-based physical lines), comments =
[(line, text, kind, stmt_index)] with kind in full | trailing | incont |
incont_trailing | blank, in source order.
"""
from .lexer import lex_spans

COMMENT_TEXTS = [
    "! plain", "!", "!! double", "! it's", '! say "hi', "! trailing &", "! x = 1; y = 2", "!$omp parallel do",
    "!dir$ ivdep", "!$ x = 1", "! 'quoted' \"both\"", "!gcc$ attributes", "!$acc loop", "! end if", "!end do",
    "! a & b", "!x", "! 100 continue", "!$OMP END PARALLEL", "!DIR$ NOUNROLL", "! (unbalanced", "! two  blanks",
    "! disabled for now: !dir$ ivdep", "! old hint was !gcc$ unroll 4", "! lengths come from misc$opt c$x", "! was !$omp do",
    "!!$omp not a directive", "! *$x",
]

DEFAULTS = dict(
    p_full=0.12, p_trailing=0.12, p_blank=0.05, p_cont=0.15, p_cont_comment=0.3, p_cont_between=0.2,
    p_lead_amp=0.5, p_semi=0.0, p_case=0.0, p_name_case=0.0, p_str_split=0.0, indent="depth",
    comments=True, max_breaks=3, p_trailing_semi=0.0, p_tab=0.0, p_tok_split=0.0,
)


def _flip(tok, rng):
    c = rng.random()
    if c < 0.4:
        return tok.upper()
    if c < 0.7:
        return tok.lower()
    return "".join(ch.upper() if rng.random() < 0.5 else ch.lower() for ch in tok)


def stmt_text(st, rng, o):
    """Source text of a statement with optional case flips; returns text."""
    text = st.src()
    if o["p_case"] <= 0 and o["p_name_case"] <= 0:
        return text
    names = {n.lower() for n in st.exact_names()}
    out = []
    pos = 0
    for tok, cls, a, b in lex_spans(text):
        out.append(text[pos:a])
        t = tok
        if cls == "W":
            if tok.lower() in names:
                if rng.random() < o["p_name_case"]:
                    t = _flip(tok, rng)
            elif rng.random() < o["p_case"]:
                t = _flip(tok, rng)
        elif cls == "O" and rng.random() < o["p_case"]:
            t = _flip(tok, rng)
        out.append(t)
        pos = b
    out.append(text[pos:])
    return "".join(out)


def split_points(text):
    """Character offsets at which a continuation may be placed: starts of
    tokens (except the first).  Also returns string-literal interiors."""
    spans = lex_spans(text)
    pts = [a for k, (_, _, a, _) in enumerate(spans) if k > 0 and spans[k - 1][1] != "K"]
    strs = [(a, b) for (_, cls, a, b) in spans if cls == "S" and b - a >= 4]
    return pts, strs


def token_interiors(text):
    """Offsets strictly inside a lexical token other than a character literal (names, keywords, numbers, multi-
    character operators): a token may be split there by '&' at the very end of the line and '&' as the first
    non-blank character of the next."""
    out = []
    spans = lex_spans(text)
    skip = 1 + (1 if spans and spans[0][0].isdigit() else 0)      # not inside the label / the leading name
    for (tok, cls, a, b) in spans[skip:]:
        if cls not in ("S", "C") and b - a >= 2:
            out.extend(range(a + 1, b))
    return out


def _str_split_ok(text, pos, lead):
    """May a character literal be broken before text[pos]?  With a leading
    '&' always (pos strictly inside the quotes); without one the remainder
    must not start with '&', '!' or a blank (see DESIGN C04)."""
    if lead:
        return True
    return text[pos] not in "&! \t"


def render(P, rng, opts=None):
    """The decoration of each statement is drawn from a PRNG keyed by the
    statement's original index, so that removing other statements (shrinking)
    leaves it unchanged."""
    import random as _random

    o = dict(DEFAULTS)
    if opts:
        o.update(opts)
    base = rng.getrandbits(48)
    tail_rng = _random.Random(base ^ 0x5DEECE66D)
    lines = []
    comments = []
    first, last = [], []
    stmt_texts = {}
    n = len(P.stmts)

    def add_comment_line(kind, sidx, indent=None):
        txt = rng.choice(COMMENT_TEXTS)
        ind = " " * rng.randrange(0, 8) if indent is None else indent
        lines.append(ind + txt)
        comments.append((len(lines), txt, kind, sidx))

    def add_blank():
        lines.append(rng.choice(["", "", "   "]))
        comments.append((len(lines), "", "blank", None))

    i = 0
    while i < n:
        st = P.stmts[i]
        rng = _random.Random(base * 1000003 + (st.oid if st.oid is not None else i))
        if o["comments"]:
            while rng.random() < o["p_full"]:
                add_comment_line("full", i)
        while rng.random() < o["p_blank"]:
            add_blank()
        if o["indent"] == "depth":
            ind = "  " * st.depth
        elif o["indent"] == "random":
            ind = " " * rng.randrange(0, o.get("indent_max", 10))
            if rng.random() < o["p_tab"]:
                ind = "\t" + ind
        else:
            ind = ""
        # group of ';'-joined statements
        group = [i]
        while (rng.random() < o["p_semi"] and group[-1] + 1 < n
               and _joinable(P.stmts[group[-1]]) and _joinable(P.stmts[group[-1] + 1])):
            group.append(group[-1] + 1)
        parts = [stmt_text(P.stmts[k], rng, o) for k in group]
        for k, t in zip(group, parts):
            stmt_texts[k] = t
        text = parts[0]
        for extra in parts[1:]:
            text += rng.choice(["; ", "; ", ";", " ; ", "; ; ", ";; "]) + extra
        if rng.random() < o["p_trailing_semi"]:
            text += rng.choice([";", " ;"])
        if len(group) > 1 and not P.stmts[group[0]].label and rng.random() < 0.1:
            text = rng.choice(["; ", ";", "; ; "]) + text          # a line may start with ';'
        start_line = len(lines) + 1
        # continuation
        pieces = [text]
        if rng.random() < o["p_cont"]:
            pts, strs = split_points(text)
            cands = [(p, False) for p in pts]
            if o["p_str_split"] > 0:
                for a, b in strs:
                    for p in range(a + 1, b - 1):
                        if rng.random() < o["p_str_split"]:
                            cands.append((p, True))
            if o.get("p_tok_split", 0) > 0:
                for p in token_interiors(text):
                    if rng.random() < o["p_tok_split"]:
                        cands.append((p, 2))
            if cands:
                k = rng.randint(1, min(o["max_breaks"], len(cands)))
                chosen = sorted(rng.sample(cands, k))
                pieces = []
                prev = 0
                flags = []
                for p, instr in chosen:
                    pieces.append(text[prev:p])
                    flags.append(instr)
                    prev = p
                pieces.append(text[prev:])
                need_sep = False
                for pi, piece in enumerate(pieces):
                    is_last = pi == len(pieces) - 1
                    if pi == 0:
                        line = ind + piece
                    else:
                        instr_before = flags[pi - 1]
                        need_lead = instr_before and piece[:1] in ("&", "!", " ", "\t", "")
                        lead = need_lead or instr_before == 2 or rng.random() < o["p_lead_amp"]
                        if instr_before:
                            # nothing may stand between the '&' and the rest of the literal;
                            # without a leading '&' the literal resumes in column 1
                            line = (ind + "&" + piece) if lead else piece
                        elif need_sep:
                            line = ind + ("& " if lead else "  ") + piece
                            need_sep = False
                        else:
                            line = ind + (rng.choice(["&", "& ", "  &"]) if lead else "  ") + piece
                    if not is_last:
                        instr_after = flags[pi]
                        if instr_after:
                            line = line + "&"
                        elif rng.random() < 0.15 and line.strip():
                            # no blank between the last token and '&': the next line must then supply the
                            # separator unless the tokens around the break cannot merge
                            need_sep = not _glue_safe(line, pieces[pi + 1])
                            line = line.rstrip() + "&"
                        else:
                            line = line + rng.choice([" &", "&", "  &  "])
                        lines.append(line)
                        if o["comments"] and not instr_after and rng.random() < o["p_cont_comment"]:
                            txt = rng.choice(COMMENT_TEXTS)
                            lines[-1] = lines[-1] + " " + txt
                            comments.append((len(lines), txt, "incont_trailing", group[0]))
                        if rng.random() < o["p_cont_between"]:
                            if o["comments"] and rng.random() < 0.7:
                                add_comment_line("incont", group[0])
                            else:
                                add_blank()
                    else:
                        lines.append(line)
            else:
                lines.append(ind + text)
        else:
            lines.append(ind + text)
        if o["comments"] and rng.random() < o["p_trailing"]:
            txt = rng.choice(COMMENT_TEXTS)
            lines[-1] = lines[-1] + rng.choice([" ", "  ", ""]) + txt
            comments.append((len(lines), txt, "trailing", group[-1]))
        end_line = len(lines)
        for k in group:
            first.append(start_line)
            last.append(end_line)
        i = group[-1] + 1
    rng = tail_rng
    if o["comments"]:
        while rng.random() < o["p_full"]:
            add_comment_line("full", n)
    text = "\n".join(lines) + "\n"
    return text, {"stmt_first": first, "stmt_last": last, "comments": comments, "n_lines": len(lines),
                  "stmt_texts": [stmt_texts[k] for k in range(n)]}


def _glue_safe(line, nxt):
    """With '&' on both sides the two lines are joined character by character: dropping the blank in front of
    the trailing '&' is only safe if the tokens around the break cannot merge."""
    a = line.rstrip()[-1:]
    b = nxt.lstrip()[:1]
    word = lambda ch: ch.isalnum() or ch in "_.'\""  # noqa: E731
    return not (word(a) and word(b)) and not (a in "*/=<>:(" and b in "*/=<>:)")


def _joinable(st):
    if "unit_open" in st.flags or "unit_close" in st.flags:
        return False
    if st.kind in ("contains", "type_contains"):
        return False
    return True


def logical_text(text):
    """Rough logical-line view of free-form text: trailing comments dropped,
    continuation lines joined with one blank (used only by finding predicates)."""
    import re

    out = []
    cur = ""
    cont = False
    for raw in text.split("\n"):
        l = raw
        # drop a trailing comment (outside quotes)
        q = None
        cut = None
        for i, ch in enumerate(l):
            if q:
                if ch == q:
                    q = None
            elif ch in "'\"":
                q = ch
            elif ch == "!":
                cut = i
                break
        if cut is not None:
            l = l[:cut]
        if not l.strip():
            continue
        s = l.strip()
        if cont and s.startswith("&"):
            s = s[1:]
        ends = s.rstrip().endswith("&")
        if ends:
            s = s.rstrip()[:-1]
        cur = (cur + " " + s) if cont else s
        if ends:
            cont = True
        else:
            out.append(cur)
            cur = ""
            cont = False
    if cur:
        out.append(cur)
    return "\n".join(out)


PAREN_COMPLEX_BLANK = None


def known_rejection_key(text):
    """Mechanism key of a known reason for which a valid free-form layout is
    rejected, decided from the text alone; None if no known mechanism applies."""
    import re

    lt = logical_text(text)
    if re.search(r"\(\s*\(\s*[-+.\w ]+,\s*[-+.\w ]+\)\s+\)", lt):
        return "parenthesised-complex-literal-followed-by-blank"
    return None
