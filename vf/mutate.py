"""Mutators for the negative properties (C06) and structural mutations (C08)."""
from .lexer import lex_spans, LexError

PUNCT = ["(", ")", ",", "=", ":", "::", "=>", "%", "&", ";", "!", "'", '"', "*", "/", "//", "(/", "/)", "[", "]",
         "+", "-", "**", ".", "..", "_", "$", "?", "@", "#", "<", ">", "==", "\\", "{", "}", "~", "`", "^", "|", "\t"]
KEYWORDS = ["end", "if", "then", "else", "do", "program", "subroutine", "function", "module", "contains", "type",
            "interface", "select", "case", "where", "forall", "associate", "block", "critical", "call", "use", "only",
            "result", "integer", "real", "character", "kind", "len", "format", "data", "common", "implicit", "none",
            "enddo", "endif", "elseif", "elsewhere", "print", "write", "read", "open", "goto", "go to", "continue",
            "stop", "return", "cycle", "exit", "allocate", "deallocate", "nullify", "procedure", "generic", "final",
            "class", "is", "default", "enum", "enumerator", "bind(c)", "include 'x'", "include", ".and.", ".not.",
            ".true.", ".x.", "1.0e", "1.e+", "1_", "z'", "10", "0", "submodule", "import", "entry", "namelist",
            "equivalence", "save", "error stop", "concurrent", "while", "operator(", "assignment(=)", "sequence",
            "private", "public", "abstract", "extends(", "pass", "nopass", "deferred", "intent(", "dimension(",
            "codimension[", "::", "sin(", "max(", "size(", "real(", "null()", "%re"]


def _tokens(line):
    try:
        return lex_spans(line)
    except LexError:
        return None


def mutate_text(text, rng, n=None):
    """Apply 1-3 token/character/line mutations."""
    if n is None:
        n = rng.choice([1, 1, 1, 2, 2, 3])
    for _ in range(n):
        text = _one(text, rng)
    return text


def _one(text, rng):
    lines = text.split("\n")
    if lines and lines[-1] == "":
        lines.pop()
    if not lines:
        return rng.choice(KEYWORDS) + "\n"
    c = rng.random()
    k = rng.randrange(len(lines))
    if c < 0.55:
        toks = _tokens(lines[k])
        if toks:
            j = rng.randrange(len(toks))
            tok, cls, a, b = toks[j]
            op = rng.random()
            line = lines[k]
            if op < 0.25:      # delete
                line = line[:a] + line[b:]
            elif op < 0.4:     # duplicate
                line = line[:b] + " " + tok + line[b:]
            elif op < 0.55 and len(toks) > 1:   # swap with neighbour
                j2 = j + 1 if j + 1 < len(toks) else j - 1
                t2, _, a2, b2 = toks[j2]
                if a2 > a:
                    line = line[:a] + t2 + line[b:a2] + tok + line[b2:]
                else:
                    line = line[:a2] + tok + line[b2:a] + t2 + line[b:]
            elif op < 0.8:     # replace by punctuation
                line = line[:a] + rng.choice(PUNCT) + line[b:]
            else:              # replace by keyword
                line = line[:a] + rng.choice(KEYWORDS) + line[b:]
            lines[k] = line
        else:
            lines[k] = rng.choice(PUNCT) + lines[k]
    elif c < 0.75:
        line = lines[k]
        if line:
            p = rng.randrange(len(line))
            op = rng.random()
            ch = rng.choice("()',\"=:&!;%*/+-._ 0189aeEdD[]<>\t$#?@")
            if op < 0.4:
                line = line[:p] + ch + line[p + 1:]
            elif op < 0.7:
                line = line[:p] + ch + line[p:]
            else:
                line = line[:p] + line[p + 1:]
            lines[k] = line
        else:
            lines[k] = rng.choice(PUNCT)
    else:
        op = rng.random()
        if op < 0.35:
            del lines[k]
        elif op < 0.6:
            lines.insert(k, lines[k])
        elif op < 0.8:
            k2 = rng.randrange(len(lines))
            lines[k], lines[k2] = lines[k2], lines[k]
        elif op < 0.9:
            lines.insert(k, rng.choice(KEYWORDS) + " " + rng.choice(KEYWORDS + PUNCT))
        else:
            # truncate the line / join with next
            if k + 1 < len(lines):
                lines[k] = lines[k] + " " + lines[k + 1]
                del lines[k + 1]
    return "\n".join(lines) + "\n"


def random_text(rng, nlines=None):
    """Unstructured random lines over the Fortran character set mixed with keyword soup."""
    if nlines is None:
        nlines = rng.randint(1, 12)
    alpha = "abcxyzABC0123456789_ ()=,+-*/.:'\"%&!;<>[]$\t"
    out = []
    for _ in range(nlines):
        c = rng.random()
        if c < 0.4:
            out.append("".join(rng.choice(alpha) for _ in range(rng.randint(0, 40))))
        elif c < 0.85:
            parts = [rng.choice(KEYWORDS + PUNCT + ["x", "a1", "10", "1.0e-3", "'s'", "f(x)", "(", ")"]) for _ in range(rng.randint(1, 8))]
            out.append(rng.choice(["", "  ", "      ", "10 "]) + " ".join(parts))
        else:
            out.append(rng.choice(["end", "end program", "program p", "subroutine s(a)", "contains", "module m", "end module",
                                   "if (a) then", "end if", "do i = 1, 3", "end do", "x = 1", "10 continue", "do 10 i = 1, 2",
                                   "select case (i)", "end select", "type t", "end type", "interface", "end interface",
                                   "block", "end block", "where (a)", "end where", "foo:", "foo: do", "end do foo", "#if X", "#endif",
                                   "include 'f'", "!$omp x", "&", "x = &", "'", "x = 'a", "enum, bind(c)", "end enum"]))
    return "\n".join(out) + "\n"


def systematic_variants(line, max_tokens=40):
    """Every prefix truncation, every single-token deletion and every single-token duplication of one statement line
    (token boundaries from our lexer; leading indentation kept).  Returns [(class, text)]."""
    toks = _tokens(line)
    if not toks or len(toks) < 2 or len(toks) > max_tokens:
        return []
    out = []
    seen = {line}

    def add(cls, t):
        if t not in seen:
            seen.add(t)
            out.append((cls, t))

    for k in range(1, len(toks)):
        add("truncate", line[:toks[k][2]].rstrip())
    for k in range(1, min(3, len(toks))):
        add("behead", line[:toks[0][2]] + line[toks[k][2]:])
    for (tok, cls, a, b) in toks:
        add("delete", line[:a] + line[b:])
        add("duplicate", line[:b] + (" " if tok[-1].isalnum() or tok[-1] == "_" else "") + tok + line[b:])
    for j, (tok, cls, a, b) in enumerate(toks[:-1]):
        if tok in (":", ",", "=", "=>", "%", "::", "//", "**"):
            t2, _, a2, b2 = toks[j + 1]
            add("extend", line[:b2] + tok + t2 + line[b2:])      # lo:hi -> lo:hi:hi, a, b -> a, b,b
    return out
