"""Development tool: run checks and collect unlisted violations per key with the smallest payload."""
import os
import sys
import json
import glob
import subprocess

HERE = os.path.dirname(os.path.dirname(os.path.dirname(os.path.abspath(__file__))))


def main():
    props = sys.argv[1:] or ["C%02d" % i for i in range(1, 21)]
    out = {}
    cp = os.path.join(HERE, "out", "collected.json")
    if os.path.exists(cp):
        out = json.load(open(cp))
    for p in props:
        out.pop(p, None)
        for f in glob.glob(os.path.join(HERE, "out", "replay", p + "-*.json")):
            os.remove(f)
        r = subprocess.run([os.path.join(HERE, "check"), p], cwd=HERE, capture_output=True, text=True)
        print(p, r.stdout.strip().split("\n")[-1][:200], "exit", r.returncode, flush=True)
        for f in glob.glob(os.path.join(HERE, "out", "replay", p + "-*.json")):
            rec = json.load(open(f))
            k = rec["key"]
            size = len(json.dumps(rec.get("payload")))
            cur = out.setdefault(p, {}).get(k)
            if cur is None or size < cur["size"]:
                out[p][k] = {"size": size, "count": (cur["count"] + 1) if cur else 1, "detail": rec.get("detail"),
                             "payload": rec.get("payload"), "shrunk": rec.get("shrunk")}
            else:
                cur["count"] += 1
    with open(os.path.join(HERE, "out", "collected.json"), "w") as f:
        json.dump(out, f, indent=1)


if __name__ == "__main__":
    main()
