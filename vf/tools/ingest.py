"""Development tool: confirm a sub-agent's property-breaking change and keep it under seeded/.

  python -m vf.tools.ingest C05 a "what it needs to manifest"

Confirms in the scratch worktree /tmp/wt/<prop>: patch applies; the unedited test-suite passes with it; the
demonstration fails with it and passes without it.  Then writes seeded/<prop>-<x>/{patch.diff,demo.py,meta.json}.
"""
import os
import re
import sys
import json
import shutil
import subprocess

HERE = os.path.dirname(os.path.dirname(os.path.dirname(os.path.abspath(__file__))))


def sh(cmd, cwd=None, env=None):
    return subprocess.run(cmd, cwd=cwd, env=env, capture_output=True, text=True)


def main():
    prop, x, needs = sys.argv[1], sys.argv[2], sys.argv[3]
    wt = os.environ.get("VF_WT", "/tmp/wt/%s") % prop
    out = os.environ.get("VF_WT_OUT", "/tmp/wt_out/%s") % prop
    patch = os.path.join(out, "patch_%s.diff" % x)
    demo = os.path.join(out, "demo_%s.py" % x)
    src = os.path.join(wt, "src")
    env = dict(os.environ, PYTHONPATH=src)
    sh(["git", "checkout", "--", "."], cwd=wt)
    r0 = sh(["/venv/bin/python", demo, src], env=env)
    a = sh(["git", "apply", "--whitespace=nowarn", patch], cwd=wt)
    if a.returncode:
        print("patch does not apply:", a.stderr[:300])
        return 1
    try:
        r1 = sh(["/venv/bin/python", demo, src], env=env)
        t = sh(["/venv/bin/python", "-m", "pytest", "-q", "-p", "no:cacheprovider", "-n", "16", "src/fparser"], cwd=wt, env=env)
        tail = t.stdout.strip().split("\n")[-1]
    finally:
        sh(["git", "checkout", "--", "."], cwd=wt)
    ok_tests = re.search(r"\b2939 passed\b", tail) is not None and re.search(r"\b\d+ (failed|error)", tail) is None
    print("demo without change: exit %d; with change: exit %d; tests: %s" % (r0.returncode, r1.returncode, tail))
    if r0.returncode != 0 or r1.returncode != 1 or not ok_tests:
        print("NOT CONFIRMED")
        print(r1.stdout[-500:], r1.stderr[-500:])
        return 1
    sid = "%s-%s" % (prop, sys.argv[4] if len(sys.argv) > 4 else x)
    d = os.path.join(HERE, "seeded", sid)
    os.makedirs(d, exist_ok=True)
    shutil.copy(patch, os.path.join(d, "patch.diff"))
    shutil.copy(demo, os.path.join(d, "demo.py"))
    files = sorted(set(re.findall(r"^\+\+\+ b/(\S+)", open(patch).read(), re.M)))
    meta = {"property": prop, "files": files, "needs": needs,
            "confirmed": {"demo_exit_unchanged": r0.returncode, "demo_exit_with_change": r1.returncode, "test_suite_with_change": tail,
                          "how": "git apply in a scratch worktree of /repo HEAD; pytest -n 16 src/fparser; demo.py <src>; worktree restored"},
            "demo_output_with_change": r1.stdout[-600:]}
    with open(os.path.join(d, "meta.json"), "w") as f:
        json.dump(meta, f, indent=1)
    print("kept as", d)
    return 0


if __name__ == "__main__":
    sys.exit(main())
