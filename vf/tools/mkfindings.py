"""Development tool: writes known_findings.json from the curated list below, after
checking that every open reproducer still shows its finding and every fixed
reproducer passes on the tree under test (VF_REPO_SRC selects another tree:
with --original all 'fixed' reproducers are expected to FAIL there)."""
import os
import sys
import json

HERE = os.path.dirname(os.path.dirname(os.path.dirname(os.path.abspath(__file__))))


def wrap(body, unit="subroutine vf_s(vf_a)"):
    end = "end " + unit.split("(")[0]
    return unit + "\n" + body + "\n" + end + "\n"


def c04(text, ref):
    return {"mode": "one", "text": text, "ref_text": ref, "std": "f2008", "key": "layout-rejected"}


def c06(text, std="f2003", opts=None, how="free"):
    return {"mode": "single", "text": text, "std": std, "opts": opts or {}, "how": how, "raw_hex": None}


def c08(text, cls, std="f2008"):
    return {"std": std, "mutant_text": text, "mutant_class": cls}


FIXED = [
    # (property, key, commit, what, reproducer)
    ("C10", "walk-misses-nodes", "8430b05", "walk() skipped children held in a list directly inside items (COMMON block lists, implied-DO bounds, DIMENSION statements)",
     {"mode": "source", "std": "f2003", "text": "program p\n  common /b/ x, y\n  dimension z(3)\n  x = [(i, i = 1, 3)]\nend program p\n"}),
    ("C18", "deepcopy-raises:AttributeError", "fe20755", "copy.deepcopy / pickle raised for every tree that keeps comments (Comment and Directive lacked copy support)",
     {"mode": "source", "std": "f2003", "ci": 2, "text": "program p\n  ! a comment\n  !$omp parallel\n  x = 1 ! trailing\nend program p\n"}),
    ("C01", "rejected:inquire", "54e684c", "INQUIRE(IOLENGTH=n) with an output list ending in ')' was rejected",
     {"mode": "source", "std": "f2003", "ic": True, "text": wrap("  inquire (iolength = n) a, f(t)")}),
    ("C06", "AssertionError@Ac_Implied_Do.match", "fbc5159", "AssertionError escaped for the valid constructor [(a /= b)]; IndexError for an empty implied-do string",
     c06("program p\n  x = [character(len=3) :: (0 /= c)]\n  y = [()]\nend program p\n")),
    ("C03", "expression-raises:AssertionError@Ac_Implied_Do.match", "fbc5159", "Expr('[(a /= b)]') raised AssertionError",
     {"mode": "expr", "text": "[(a /= b)] .and. c", "expected": "([(a/=b)].and.c)", "context": "expr"}),
    ("C02", "token-mismatch", "f301da5", "statements separated by ';' lost the case of their names (a = B; c = D printed as a = b / c = d)",
     {"mode": "source", "std": "f2003", "text": "program p\n  Abc = Def; Ghi = 'Str' // Jk; nM: do II = 1, 2\n  end do nM\nend program p\n",
      "expected": "PROGRAM p\nAbc = Def\nGhi = 'Str' // Jk\nnM:DO II = 1, 2\nEND DO nM\nEND PROGRAM p"}),
    ("C04", "literal-break:no-lead-amp", "8373094", "a continuation line whose second character is '&' lost its first character",
     c04(wrap("  x = f(a, '&\np&q')"), wrap("  x = f(a, 'p&q')"))),
    ("C04", "construct-name-continued", "7e1a9e2", "a construct name on one line and its ':' or statement on the continuation line was rejected",
     c04(wrap("  20 &\n  nm &\n  : &\n  do i = 1, n\n  end do nm"), wrap("  20 nm: do i = 1, n\n  end do nm"))),
    ("C04", "layout-rejected", "9373577", "END BLOCK   DATA and ERROR   STOP (more than one blank, e.g. joined from continuation lines) were rejected",
     c04("block data bd\nend block &\n   data bd\nsubroutine s\n  error  &\n   stop 1\nend subroutine s\n", "block data bd\nend block data bd\nsubroutine s\n  error stop 1\nend subroutine s\n")),
    ("C01", "rejected:end_subroutine", "de90165", "a comment between the DO statements of a shared-label nest made the enclosing unit be rejected",
     {"mode": "source", "std": "f2003", "ic": False, "text": wrap("  do 10 i = 1, 2\n  ! c\n    do 10 j = 1, 2\n  10 continue")}),
    ("C08", "accepted-with-statements-dropped:delete-do-terminator@do_term_continue", "14f017d", "a labelled DO without its terminating statement was accepted and the rest of the execution part dropped",
     c08("program s\n  do 10 i = 1, 2\n  x = 1\n  y = 2\nend program s\n", "delete-do-terminator@do_term_continue")),
    ("C09", "scope-left-open", "a687171", "an intrinsic called with a wrong argument count inside a unit, or a failing PROGRAM-less main program, left a scoping region open",
     {"mode": "leak", "text": "module a\n  integer :: sin\ncontains\n  subroutine s\n    x = cos(1, 2, 3)\n  end subroutine s\nend module a\n"}),
    ("C09", "scope-left-open", "a687171", "Main_Program0 had no clean-up on errors",
     {"mode": "leak", "text": "x = cos(1, 2, 3)\nend\n"}),
    ("C06", "step-budget-exceeded", "4a618fa", "endless loop when the first code line is an OpenMP conditional line and include_omp_conditional_lines=True",
     c06("!$ x = 1\nprogram ps\nend program ps\n", "f2008", {"include_omp_conditional_lines": True})),
    ("C04", "layout-rejected", "5ccb8ee", "a control edit descriptor followed by a blank before the separator (FORMAT (ss , o4)) was rejected",
     c04(wrap("  146 format  &\n  &(ss&\n  , o4, s )"), wrap("  146 format (ss, o4, s)"))),
    ("C04", "layout-rejected", "bd437c8", "'type( name ) x' without '::' (blank or continuation inside the parentheses) was rejected",
     c04(wrap("  type(&\n    ci) g &\n  , j\n  class( ci ) k"), wrap("  type(ci) g, j\n  class(ci) k"))),
    ("C05", "zero-in-column-6-taken-as-continuation", "7674078", "a '0' in column 6 of a fixed-form initial line was taken as a continuation mark",
     {"mode": "raw", "std": "f2003", "fixed_text": "      program p\n     0x = 1\n     0end\n", "free_text": "program p\nx = 1\nend\n"}),
    ("C11", "directives:trailing-comment-typed-Directive", "00057dd", "a trailing comment on a line containing a quote became a Directive node",
     {"mode": "raw", "std": "f2003", "text": "program p\n  print *, 'x' !dir$ ivdep\n  !dir$ ivdep\nend program p\n",
      "comments": [["C", "!dir$ ivdep"], ["D", "!dir$ ivdep"]]}),
    ("C14", "rejected", "d5720bf", "a ';' inside a preprocessor directive split the directive and the source was rejected",
     {"mode": "raw", "std": "f2003", "text": "#define VF_SEMI a; b\nprogram p\nend program p\n", "directives": ["#define VF_SEMI a; b"]}),
    ("C19", "reparse-text-differs", "849892b", "fparser1 regenerated 'forall (i = 1:n)' as 'FORALL (F2PY_EXPR_TUPLE_1)'",
     {"mode": "raw", "form": "free", "analyze": False, "text": "program p\n  forall (i = 1:n)\n    a(i) = i\n  end forall\nend program p\n",
      "expected_body": ["PROGRAM p", "FORALL (i = 1:n)", "a(i) = i", "END FORALL", "END PROGRAM p"]}),
    ("C02", "main-program-without-program-stmt-drops-other-units", "2a1d9c2", "a main program without PROGRAM statement made every other program unit of the file disappear from the tree",
     {"mode": "source", "std": "f2003", "text": "function f()\nend function\n! c\nx = 1\nend\nsubroutine s\nend\n",
      "expected": "FUNCTION f()\nEND FUNCTION\nx = 1\nEND\nSUBROUTINE s\nEND"}),
    ("C11", "main-program-without-program-stmt-drops-leading-comments", "2a1d9c2", "comments in front of a PROGRAM-less main program were lost with comments retained",
     {"mode": "raw", "std": "f2003", "text": "! first\nx = 1\nend\n", "comments": [["C", "! first"]]}),
    ("C14", "main-program-without-program-stmt-drops-leading-directive", "2a1d9c2", "a preprocessor line in front of a PROGRAM-less main program was lost",
     {"mode": "raw", "std": "f2003", "text": "#define A 1\nx = 1\nend\n", "directives": ["#define A 1"]}),
]

FIXED += [
    ("C06", "AssertionError@Component_Decl.match", "a6b32ad", "AssertionError escaped from Component_Decl.match for text after a component declaration",
     c06("module m\n type t\n  character(10) g\"mp(:)\n  integer :: h(3) result(r)\n end type\nend module m\n")),
    ("C06", "AssertionError@Deallocate_Stmt.match", "a6b32ad", "AssertionError escaped from Deallocate_Stmt.match for an option without a preceding object",
     c06("program p\n deallocate (z=e23)\nend program p\n")),
]

FIXED += [
    ("C03", "grouping-differs", "bfcd198", "a parenthesised sub-expression repeated with different parenthesis depth gained parentheses: ((a+b)) * (a+b) parsed as ((a+b)) * ((a+b)) (string_replace_map placeholder collision)",
     {"mode": "expr", "text": "((a + b)) * (a + b)", "expected": "(p[p[(a+b)]]*p[(a+b)])", "context": "expr"}),
    ("C02", "token-mismatch", "bfcd198", "string_replace_map collisions: the string '(a+b)' next to the expression (a+b) gained parentheses; \"'a b'\" // 'a b' was rejected",
     {"mode": "source", "std": "f2003", "text": "program p\n  x = '(a+b)' // (a+b)\n  y = \"'a b'\" // 'a b'\n  z = ((c)) + (c)\nend program p\n",
      "expected": "PROGRAM p\nx = '(a+b)' // (a + b)\ny = \"'a b'\" // 'a b'\nz = ((c)) + (c)\nEND PROGRAM p"}),
]

FIXED += [
    ("C04", "layout-rejected", "e8f7ea4", "'integer(4)x' / 'class(t(4,*))x': no blank between the type-spec's closing parenthesis and the first entity (e.g. lines joined by '&' ... '&') was rejected",
     c04(wrap("  class  &\n  (  &\n  t(4, *))&\n  &vf_a\n  integer(4)k"), wrap("  class(t(4, *)) vf_a\n  integer(4) k"))),
]

FIXED += [
    ("C05", "fixed-tree-differs", "b176d9f", "in fixed form a construct name (or its ':') that did not stand wholly on the initial line was not recognised",
     {"mode": "raw", "std": "f2003", "key": "fixed-tree-differs",
      "fixed_text": "      subroutine s\n       cntrow\n     3up: select case (k)\n       case (8)\n       endselect cntrowup\n      end\n",
      "free_text": "subroutine s\ncntrowup: select case (k)\ncase (8)\nend select cntrowup\nend\n"}),
    ("C05", "fixed-rejected", "b176d9f", "a fixed-form initial line ending in 'word :' (statement cut between the colons of '::', or a construct name alone on its line) was taken for a lone construct name; reporting it raised IndexError in the reader, which silently stopped delivering items",
     {"mode": "raw", "std": "f2003", "key": "fixed-rejected",
      "fixed_text": "      program p\n       dimension :\n     *: ro(2, 3)\n      nm :\n     * do i = 1, 2\n      end do nm\n      end\n", "free_text": "program p\ndimension :: ro(2, 3)\nnm: do i = 1, 2\nend do nm\nend\n"}),
]

FIXED += [
    ("C13", "resolved-tree-differs", "cca2418", "the reader of an INCLUDE file re-detected the source form from the file's content; a free-form include file with no line proving free form was read as fixed form (character in column 6 dropped as a continuation mark)",
     {"mode": "raw", "std": "f2003", "key": "resolved-tree-differs",
      "main": "program p\n  do 98 i = 1, 2\n    include 'body.inc'\nend program p\n",
      "files": {"body.inc": "      x(3) = 1\n  98 tbee_k(:n) = 2\n"},
      "ref": "program p\n  do 98 i = 1, 2\n      x(3) = 1\n  98 tbee_k(:n) = 2\nend program p\n"}),
]

FIXED += [
    ("C15", "enabled:tree-differs", "790704f", "include_omp_conditional_lines was not handed to the reader of an INCLUDE file: a '!$ ' line inside an included file stayed a comment while the same line in the main source was parsed as code",
     {"mode": "raw", "std": "f2003", "form": "free", "key": "enabled:tree-differs",
      "text": "program p\n  include 'a.inc'\n!$ z = 3\nend program p\n", "files": {"a.inc": "!$ x = 1\n  y = 2\n"},
      "ref_on": "program p\n  x = 1\n  y = 2\n  z = 3\nend program p\n"}),
]

FIXED += [
    ("C20", "superpolynomial-growth:array_nest", "b566d7a", "rule attempts grew exponentially with the depth of nested references a(a(a(...))) (337, 442, 1066, 13546 for depth 1, 2, 4, 8): Data_Ref.match matched a single part-ref completely, discarded it and left it to Part_Ref to match again",
     {"family": "array_nest", "second": None, "std": "f2003", "sizes": [1, 2, 4, 8, 16]}),
    ("C20", "superpolynomial-growth:nested_calls", "b566d7a", "same for nested function references f(f(f(1, 2)))",
     {"family": "nested_calls", "second": None, "std": "f2003", "sizes": [1, 2, 4, 8, 16]}),
]

def c19(text, body, form="free", analyze=False):
    return {"mode": "raw", "form": form, "analyze": analyze, "text": text, "expected_body": body}


FIXED += [
    ("C19", "reparse-text-differs", "5eb711b", "fparser1: the terminal statement of a shared-label DO nest was held by every loop of the nest and regenerated once per loop; each re-parse added another copy",
     c19("subroutine s\ndo 10 i = 1, 2\ndo 10 j = 1, 2\nx = 1\n10 continue\nend\n",
         ["SUBROUTINE s()", "DO 10 i = 1, 2", "DO 10 j = 1, 2", "x = 1", "10 CONTINUE", "END SUBROUTINE s"])),
    ("C19", "reparse-text-differs", "5bdde37", "fparser1: '10 if (c) y = 1' was regenerated as '10 IF (c) 10 y = 1' (the action statement inherited the label); each round glued on another",
     c19("subroutine s\n10 if (c) y = 1\nend\n", ["SUBROUTINE s()", "10 IF (c) y = 1", "END SUBROUTINE s"])),
    ("C19", "statement-text-changed", "0490ebf", "fparser1: one-line WHERE regenerated with F2PY_EXPR_TUPLE_n placeholders instead of its subscripts",
     c19("subroutine s\nwhere (a > 0) b(1:3) = a(2:4)**2.5\nend\n", ["SUBROUTINE s()", "WHERE ( a > 0 ) b(1:3) = a(2:4)**2.5", "END SUBROUTINE s"])),
    ("C19", "statement-text-changed", "c5b12fb", "fparser1: 'common /a/ x // y' regenerated as 'COMMON / a / x y' (blank common lost its slashes)",
     c19("subroutine s\ncommon /a/ x(5) // y\nend\n", ["SUBROUTINE s()", "COMMON / a / x(5) // y", "END SUBROUTINE s"])),
]

FIXED += [
    ("C02", "token-mismatch", "62bc5e6", "'generic :: g =>abc' (no blank after '=>') lost the first character of the binding name: parsed and regenerated as 'GENERIC :: g => bc'",
     {"mode": "source", "std": "f2003", "text": "module m\n  type t\n  contains\n    generic :: assignment(=) =>abc, d\n    generic, private :: gg=>Xy\n  end type t\nend module m\n",
      "expected": "MODULE m\nTYPE :: t\nCONTAINS\nGENERIC :: ASSIGNMENT(=) => abc, d\nGENERIC, PRIVATE :: gg => Xy\nEND TYPE t\nEND MODULE m"}),
    ("C06", "IndexError@Data_Edit_Desc_C1002.match", "75888e0", "'format (e)' / '(g)': IndexError escaped instead of a syntax error",
     c06("program p\n10 format (e)\n20 format (2(g), a)\nend program p\n")),
]

FIXED += [
    ("C01", "rejected:function", "b4bd4ba", "'type(function_x) function f(a)': the first occurrence of FUNCTION in the line (inside the type name) was taken for the keyword and the valid statement rejected",
     {"mode": "source", "std": "f2008", "ic": True, "text": "type(function_x) function ze67(a) result(y)\nend function ze67\ntype(xfunction) function g()\nend function g\n"}),
]

FIXED += [
    ("C06", "AttributeError@BlockBase.match", "ab091d3", "AttributeError escaped when an END statement carries a name but the opening statement has none ('blockdata' / 'END block data x')",
     c06("blockdata \nEND block data realv\n")),
]

FIXED += [
    ("C08", "accepted:insert-paren@intent", "3b8ee83", "abs(pattern) did not group its alternatives ('\\AINOUT|IN|OUT\\Z'): INTENT(IN)) :: a with a surplus ')' was accepted",
     c08(wrap("  intent(in)) :: vf_a"), "insert-paren@intent")),
    ("C08", "accepted:insert-paren@typedecl", "3b8ee83", "same mechanism: a type declaration with a surplus ')' after an attribute was accepted",
     c08(wrap("  real(8), intent(in)) :: vf_a"), "insert-paren@typedecl")),
    ("C08", "accepted:delete-paren@typedecl", "3b8ee83", "same mechanism: INTENT(IN), DIMENSION3) taken as one intent-spec",
     c08(wrap("  integer, intent(in), dimension3) :: vf_a"), "delete-paren@typedecl")),
]

FIXED += [
    ("C16", "surplus-block-table", "cce2b99", "a BLOCK inside a non-block labelled DO was matched twice (block DO abandoned, then non-block DO): a second, empty table of the same name was created under the same parent; the table of the final tree's BLOCK held no symbols and a stale duplicate held them",
     {"mode": "raw", "std": "f2008", "key": "surplus-block-table",
      "source": "program p\n  integer :: i\n  do 10 i = 1, 2\n    block\n      real :: x, sin\n      x = sin(1)\n    end block\n10 y = 2\nend program p\n",
      "expected": [["p", ["i"], [], [[None, ["sin", "x"], [], []]]]]}),
]

FIXED += [
    ("C05", "fixed-tree-differs", "3446bf5", "a fixed-form label with a blank between its digits (' 1 2  continue' = label 12) raised ValueError inside the reader, whose catch-all dropped the statement silently",
     {"mode": "raw", "std": "f2003", "key": "fixed-tree-differs",
      "fixed_text": "      program p\n      goto 12\n 1 2  continue\n      x = 1\n      end\n",
      "free_text": "program p\ngoto 12\n12 continue\nx = 1\nend\n"}),
]

FIXED += [
    ("C01", "rejected:bind", "c681d67", "'bind(c) x, y' (BIND statement without the optional '::') was rejected: the language-binding-spec was cut before its closing parenthesis",
     {"mode": "source", "std": "f2003", "ic": True, "text": "module m\n  bind(c) x, /blk/\n  bind(c, name = 'q') y\nend module m\n"}),
    ("C02", "token-mismatch", "bc9bf99", "'format (-1p e12.4)': a signed scale factor directly in front of a data edit descriptor was rejected",
     {"mode": "source", "std": "f2003", "text": "subroutine s\n10 format (-1p e12.4, +2p f8.3)\nend subroutine s\n",
      "expected": "SUBROUTINE s\n10 FORMAT(-1P, E12.4, +2P, F8.3)\nEND SUBROUTINE s"}),
]

FIXED += [
    ("C13", "resolved-rejected", "c46375a", "an INCLUDE file that delivers no item (empty, or only comments while comments are ignored) ended the item stream: inside a construct the unit was rejected at the line after the INCLUDE line",
     {"mode": "raw", "std": "f2003", "key": "resolved-rejected", "ic": True,
      "main": "program p\n  forall (i = 1:2)\n    include 'void.inc'\n    a(i) = 2\n  end forall\nend program p\n",
      "files": {"void.inc": "! nothing here\n"},
      "ref": "program p\n  forall (i = 1:2)\n    a(i) = 2\n  end forall\nend program p\n"}),
]

FIXED += [
    ("C08", "accepted:delete-opener@do", "d53308f", "inside a labelled DO block an END DO without the block's label stayed as an ordinary child: a labelled DO closed by an unlabelled END DO (the labelled statement following), or a surplus END DO inside a labelled DO, was accepted",
     c08(wrap("  do 46 k = 1, 3\n    exit\n  end do\n  46 continue"), "delete-opener@do")),
    ("C08", "accepted:surplus-end@write", "d53308f", "same mechanism, reached by a surplus END DO after an inner loop",
     c08(wrap("  do 10 i = 1, 2\n    do j = 1, 2\n      x = 1\n    end do\n    write (*, *) x\n  end do\n  10 continue"), "surplus-end@write")),
    ("C06", "ValueError@Format_Item_List.match", "32a5397", "'format (1x, 3 3Habc)': ValueError escaped (Hollerith count with a blank between its digits converted with int())",
     c06("program p\n10 format (1x, 3 3Habc, z8)\nend program p\n")),
    ("C04", "layout-rejected", "d96d4e8", "'real(8)pure function f(x)' - a prefix keyword directly after the closing parenthesis of the type-spec (lines joined by '&' ... '&') - was rejected",
     c04("real(8)&\n  &pure function vf_f(vf_a)\nend function vf_f\n", "real(8) pure function vf_f(vf_a)\nend function vf_f\n")),
]

FIXED += [
    ("C04", "layout-rejected", "bf55898", "a line starting with ';' lost all its statements: the empty text in front of the ';' was turned into an item, creating it raised FortranReaderError inside the reader and the catch-all dropped the line silently",
     c04(wrap("  ; vf_a = 1; k = 2\n  ;\n  ; ; m = 3"), wrap("  vf_a = 1\n  k = 2\n  m = 3"))),
]

FIXED += [
    ("C04", "layout-rejected", "cb79107", "a '::' split between its colons by a free-form continuation ('optional :&' / '&: x') was taken for a construct name on the first line and the statement rejected",
     c04(wrap("  optional :&\n  &: vf_a\n  integer :&\n&: k"), wrap("  optional :: vf_a\n  integer :: k"))),
]

FIXED += [
    ("C06", "IndexError@Cray_Pointer_Decl.match", "bde152e", "'pointer (p, )' (Cray pointer declaration with an empty pointee): IndexError escaped instead of a syntax error",
     c06("subroutine s\n  pointer (p, ), (q, b(10))\nend subroutine s\n")),
]

FIXED += [
    ("C18", "file-reader:deepcopy-raises:TypeError", "512c569", "copy.deepcopy and pickle raised TypeError (cannot pickle 'TextIOWrapper') for every tree whose items came from a FortranFileReader: a file parsed directly, or a resolved INCLUDE line",
     {"mode": "source", "std": "f2003", "ci": 1, "rk": "include", "text": "program p\n  a = 1\n  include 'vf_c18.inc'\n  b = 2\nend program p\n"}),
]

OPEN = [
    ("C01", "format-c1002-node-not-reproduced", "a scale factor directly followed by a data edit descriptor ('1p e12.4') is held in a Format_Item_C1002 node but printed with a comma ('1P, E12.4'), so the re-parsed tree has two list items instead: the tree is not structurally identical after the round trip (the comma is asserted by test_format_specification_r1002.py)",
     {"mode": "source", "std": "f2003", "ic": True, "text": "subroutine s\n10 format (1p e12.4, i3)\nend subroutine s\n"}),
    ("C03", "defined-binary-op-with-dotted-right", "a defined binary operator with a dotted operator or logical literal to its right at the same parenthesis level is not parsed (Expr.match splits at the right-most .word. and gives up if that one is intrinsic)",
     {"mode": "expr", "text": "a .x. b .and. c", "expected": "(a.x.(b.and.c))", "context": "expr", "known": True}),
    ("C03", "operator-like-name-between-dotted-operators", "an operand named like the word of a dotted operator (ge, or, eq, ...) with a dotted operator on each side is rejected: '. ge .' inside '.neg. ge .lt. x' is taken for the operator .GE. (patterns allow blanks inside dotted operators)",
     {"mode": "expr", "text": "lt .ge. and .and. ne", "expected": "((lt.ge.and).and.ne)", "context": "expr", "oplike": True}),
    ("C02", "deviation:label-leading-zeros", "a statement label written with leading zeros (010) is printed without them (10) while references keep them: labels are not reproduced character for character",
     {"mode": "source", "std": "f2003", "key": "deviation:label-leading-zeros", "text": "program p\n010 continue\nend program p\n", "expected": "PROGRAM p\n010 CONTINUE\nEND PROGRAM p"}),
    ("C02", "deviation:numeric-literal-case", "the exponent letter of real literals and the digits of BOZ literals are upper-cased (1.0e5 -> 1.0E5, z'1f' -> Z'1F'); the statement demands numeric literals character for character", None),
    ("C02", "deviation:char-selector-order", "CHARACTER(KIND=k, LEN=n) is printed LEN first: tokens reordered, not a listed canonicalisation", None),
    ("C02", "deviation:suffix-order", "FUNCTION f(x) BIND(C) RESULT(r) is printed RESULT(r) BIND(C): tokens reordered, not a listed canonicalisation",
     {"mode": "source", "std": "f2003", "key": "deviation:suffix-order", "text": "function f(x) bind(c) result(r)\nend function f\n",
      "expected": "FUNCTION f(x) BIND(C) RESULT(r)\nEND FUNCTION f"}),
    ("C02", "deviation:common-block-comma", "COMMON /a/ x, /b/ y is printed without the optional comma in front of the second block: token dropped, not a listed canonicalisation",
     {"mode": "source", "std": "f2003", "key": "deviation:common-block-comma", "text": "subroutine s\n  common /a/ x, /b/ y\nend subroutine s\n",
      "expected": "SUBROUTINE s\nCOMMON /a/ x, /b/ y\nEND SUBROUTINE s"}),
    ("C02", "deviation:blank-common-slashes", "COMMON a, b is printed COMMON // a, b: tokens invented, not a listed canonicalisation", None),
    ("C02", "deviation:computed-goto-comma", "GO TO (10, 20) i is printed with a comma before the expression: token invented, not a listed canonicalisation", None),
    ("C05", "fixed-not-detected:bang-comment-in-columns-2-5", "a '!' comment starting in columns 2-5 makes the detector report free form (asserted by test_conditional_include_omp_conditional_liness_free_format_single_line, so not repairable here)",
     {"mode": "raw", "std": "f2003", "key_detect": "fixed-not-detected:bang-comment-in-columns-2-5", "fixed_text": "  ! x = 1\n      program p\n      end\n", "free_text": "program p\nend\n"}),
    ("C05", "fixed-not-detected:line-ends-in-ampersand", "a fixed-form line whose last character is '&' (e.g. a continuation line holding only the mark '&') makes the detector report free form",
     {"mode": "raw", "std": "f2003", "key_detect": "fixed-not-detected:line-ends-in-ampersand", "fixed_text": "      program p\n      x = 1 +\n     &\n     & 2\n      end\n", "free_text": "program p\nx = 1 + 2\nend\n"}),
    ("C06", "SystemExit@BlockBase.match:expected _ _ Ignoring.", "a unit whose END statement carries a different name terminates the calling process through reader.error() -> sys.exit (asserted by test_submodule_differentname)",
     c06("subroutine a\nend subroutine b\n")),
    ("C06", "SystemExit@FortranReaderBase.get_source_item:No construct following construct-name.", "a construct name with nothing after it ('foo:') terminates the calling process (reader.error)",
     c06("x = 1\nfoo:\nend\n")),
    ("C06", "InternalError@Kind_Selector.match", "InternalError escapes for a too short kind selector such as 'integer(' (asserted by the unit test of Kind_Selector)",
     c06("program p\n  integer, dimension(:, :) a: b(3)\nend program p\n")),
    ("C08", "accepted:insert-paren@procdecl", "PROCEDURE(iface)) :: p with a surplus ')' is accepted", c08(wrap("  procedure(real)), pointer :: p"), "insert-paren@procdecl")),
    ("C08", "accepted:insert-paren@use", "USE m, ONLY: OPERATOR(+)) with a surplus ')' is accepted", c08(wrap("  use m, only: operator(+))"), "insert-paren@use")),
    ("C08", "accepted:insert-paren@access", "PUBLIC :: OPERATOR(*)) with a surplus ')' is accepted", c08("module m\n  public :: operator(*))\nend module m\n", "insert-paren@access")),
    ("C08", "accepted:insert-paren@interface", "INTERFACE OPERATOR(*)) with a surplus ')' is accepted", c08("module m\n  interface operator(*))\n  end interface\nend module m\n", "insert-paren@interface")),
    ("C08", "accepted:insert-paren@end_interface", "END INTERFACE OPERATOR(*)) with a surplus ')' is accepted", c08("module m\n  interface operator(*)\n  end interface operator(*))\nend module m\n", "insert-paren@end_interface")),
    ("C08", "accepted:insert-paren@generic", "GENERIC :: OPERATOR(==)) => p with a surplus ')' is accepted", c08("module m\n  type t\n  contains\n    generic :: operator(==)) => p\n  end type\nend module m\n", "insert-paren@generic")),
    ("C08", "accepted:delete-paren@access", "PUBLIC OPERATOR(==, ASSIGNMENT(=) with a missing ')' is accepted", c08("module m\n  public operator(==, assignment(=)\nend module m\n", "delete-paren@access")),
    ("C08", "accepted:delete-paren@use", "USE m, ONLY: OPERATOR(==, OPERATOR(.dot.) with a missing ')' is accepted", c08(wrap("  use m, only: operator(==, operator(.dot.)"), "delete-paren@use")),
    ("C08", "accepted:rename-construct-name@end_do", "a labelled DO construct closed by 'label END DO other_name' is accepted (no name check for Block_Label_Do_Construct)", c08(wrap("  nm: do 10 i = 1, 2\n  10 end do nm_zz"), "rename-construct-name@end_do")),
    ("C08", "accepted:delete-opener@subprogram", "specification and executable statements directly after CONTAINS in a subprogram are accepted (seen when the opener of a contained subprogram is deleted)", c08("function f()\n  contains\n  integer :: a\n  a = 1\nend function\n", "delete-opener@subprogram")),
    ("C09", "tables-left-behind", "symbol tables of units matched before the failing unit of the same source stay behind (and a failing PROGRAM-less main program removes a 'fparser2:main_program' table made by an earlier parse): no transactional clean-up",
     {"mode": "leak", "text": "module a\n  integer :: sin\nend module a\nmodule b\n  x = = 1\nend module b\n"}),
    ("C09", "failed-parse-changes-later-result:tables", "same mechanism: tables left by the failed parse show up in (or are missing from) the table forest of later parses",
     {"mode": "diffone", "std": "f2003", "ops": [["parse", "invalid", 4], ["parse", "valid", 2]]}),
    ("C09", "failed-parse-changes-later-result:text", "same mechanism: a stale declaration of an intrinsic name left by a failed parse changes how a later source is printed (sin vs SIN)",
     {"mode": "diffone", "std": "f2003", "ops": [["parse", "invalid", 4], ["parse", "valid", 1]]}),
    ("C09", "failed-parse-changes-later-result:status", "same mechanism: a stale declaration left by a failed parse makes a later invalid source be accepted",
     {"mode": "diffone", "std": "f2003", "ops": [["parse", "invalid", 5], ["parse", "invalid", 1], ["parse", "invalid", 0]]}),
    ("C11", "parenthesised-complex-literal-followed-by-blank", "'((1.0, 2.0) )' - a parenthesised complex literal followed by a blank inside further parentheses - is rejected (BracketBase.match strips only on the left; test_bracket_base asserts it)",
     {"mode": "raw", "std": "f2003", "key": "parenthesised-complex-literal-followed-by-blank", "text": wrap("  x = (((.5, 1.0) ))"), "comments": []}),
    ("C15", "parenthesised-complex-literal-followed-by-blank", "same mechanism, reached through a conditional continuation line ('!$ & ))')", None),
    ("C04", "parenthesised-complex-literal-followed-by-blank", "same mechanism, reached through a continuation placed before the closing parenthesis",
     dict(c04(wrap("  x = (((.5, 1.0) &\n  ))"), wrap("  x = (((.5, 1.0)))")), key="parenthesised-complex-literal-followed-by-blank")),
    ("C14", "include-angle-brackets-printed-as-quotes", "#include <f> is regenerated as #include \"f\"",
     {"mode": "raw", "std": "f2003", "key": "include-angle-brackets-printed-as-quotes", "text": "#include <sys.h>\nprogram p\nend program p\n", "directives": ["#include <sys.h>"]}),
    ("C14", "block-split-by-directive:Component_Part", "a directive (or comment) between two component definitions splits the Component_Part node in two (asserted by test_comments_and_directives.py::test_derived_type)", None),
    ("C19", "regenerated-typedecl-without-colons-reads-as-function-stmt", "fparser1 drops '::' from 'character*5 :: function_x(0:9)'; the regenerated 'CHARACTER(LEN=5) function_x(0:9)' is read back as a FUNCTION statement",
     {"mode": "raw", "form": "free", "analyze": False, "text": "module saw\n  character*5 :: function_x(0:9)\nend module saw\n",
      "key_map": {"regenerated-rejected:AnalyzeError": "regenerated-typedecl-without-colons-reads-as-function-stmt"}}),
    ("C19", "analyze-merges-unnamed-interface-blocks", "with analyze=True two unnamed INTERFACE blocks of one scope are merged and their bodies duplicated in the regenerated source; every re-parse duplicates more",
     {"mode": "raw", "form": "free", "analyze": True, "text": "module ps\n  interface\n  end interface\n  interface\n    subroutine ptp(n)\n    end subroutine ptp\n  end interface\nend module ps\n",
      "key_map": {"reparse-text-differs": "analyze-merges-unnamed-interface-blocks", "reparse-structure-differs": "analyze-merges-unnamed-interface-blocks"}}),
    ("C20", "nested-non-block-labelled-do", "rule attempts grow exponentially with the depth of nested non-block labelled DO loops closed by action statements (777, 1016, 1934, 15650, 227366, ... for depth 1, 2, 4, 8, 12)",
     {"family": "nonblock_do_action", "second": None, "std": "f2003", "sizes": [1, 2, 4, 8]}),
]


def main():
    sys.path.insert(0, HERE)
    from vf.runner import load_prop
    from vf.worker import run_payload

    original = "--original" in sys.argv
    out = {"note": "Genuine defects of stfc/fparser found by the checks. status=open: recorded, not repaired (the check prints "
                   "KNOWN-FINDING and ignores violations with the same mechanism key); status=fixed: repaired by the named "
                   "'fix:' commit of /repo - a fixed entry suppresses nothing, its reproducer runs as an ordinary case. "
                   "Read-only at run time; written by vf/tools/mkfindings.py.",
           "findings": []}
    bad = 0
    # reproducers collected from runs (smallest payload per key) for the open entries without a hand-made one
    coll = {}
    cp = os.path.join(HERE, "out", "collected.json")
    if os.path.exists(cp):
        coll = json.load(open(cp))
    for prop, key, what, rep in OPEN:
        if rep is None:
            rep = (coll.get(prop, {}).get(key) or {}).get("payload")
        entry = {"property": prop, "key": key, "status": "open", "what": what, "reproducer": rep}
        if rep is not None:
            res = run_payload(load_prop(prop), rep)
            ok = any(v["key"] == key for v in res["violations"])
            if not ok and not original:
                bad += 1
                print("OPEN entry does not reproduce:", prop, key, [v["key"] for v in res["violations"]], res.get("inconclusive"))
        else:
            print("note: no reproducer for", prop, key)
        out["findings"].append(entry)
    for prop, key, commit, what, rep in FIXED:
        res = run_payload(load_prop(prop), rep)
        failing = bool(res["violations"]) or bool(res.get("inconclusive"))
        if original:
            if not failing:
                bad += 1
                print("FIXED reproducer does not fail on the original tree:", prop, key)
        elif failing:
            bad += 1
            print("FIXED reproducer still fails:", prop, key, res["violations"], res.get("inconclusive"))
        out["findings"].append({"property": prop, "key": key, "status": "fixed", "commit": commit,
                                "what": "fixed: property=%s %s %s" % (prop, commit, what), "reproducer": rep})
    if not original:
        with open(os.path.join(HERE, "known_findings.json"), "w") as f:
            json.dump(out, f, indent=1)
    print("entries: %d open, %d fixed; problems: %d" % (len(OPEN), len(FIXED), bad))
    return 1 if bad else 0


if __name__ == "__main__":
    sys.exit(main())
