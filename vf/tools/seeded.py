"""Development tool (DESIGN.md section 10): runs checks against the seeded
property-breaking changes kept under /verif/seeded/<id>/.

  python -m vf.tools.seeded [<id> ...] [--props C01,C04] [--tier quick]

For every seeded change: copy /repo/src to a scratch directory under the
system temp dir, apply patch.diff there, run the owning property's check
(and any extra ones named in meta.json 'also') with VF_REPO_SRC pointing at
the copy and evidence redirected, expect exit 1, delete the copy.  /repo is
never modified.  Results go to seeded/RESULTS.json.
"""
import os
import sys
import json
import shutil
import tempfile
import subprocess

HERE = os.path.dirname(os.path.dirname(os.path.dirname(os.path.abspath(__file__))))
REPO = "/repo"


def run_one(sid, tier, props=None):
    d = os.path.join(HERE, "seeded", sid)
    meta = json.load(open(os.path.join(d, "meta.json")))
    work = tempfile.mkdtemp(prefix="vfseed_")
    res = {}
    try:
        shutil.copytree(os.path.join(REPO, "src"), os.path.join(work, "src"))
        subprocess.run(["git", "init", "-q"], cwd=work, check=True)
        p = subprocess.run(["git", "apply", "--whitespace=nowarn", os.path.join(d, "patch.diff")], cwd=work, capture_output=True, text=True)
        if p.returncode != 0:
            return {"error": "patch does not apply: " + p.stderr[:300]}
        env = dict(os.environ)
        env["VF_REPO_SRC"] = os.path.join(work, "src")
        env["VF_EVIDENCE_DIR"] = os.path.join(work, "evidence")
        for prop in props or [meta["property"]] + meta.get("also", []):
            r = subprocess.run([os.path.join(HERE, "check"), prop, "--tier", tier], cwd=HERE, env=env, capture_output=True, text=True)
            keys = sorted({l.split("#", 1)[1].split(":")[0].strip() + ":" + l.split("#", 1)[1].split(":")[1].strip()[:40]
                           if "#" in l else l for l in r.stdout.split("\n") if l.startswith("VIOLATION")})
            res[prop] = {"exit": r.returncode, "caught": r.returncode == 1, "violation_keys": keys[:8],
                         "summary": r.stdout.strip().split("\n")[-1][:200]}
    finally:
        shutil.rmtree(work, ignore_errors=True)
    return res


def main():
    args = [a for a in sys.argv[1:] if not a.startswith("--")]
    tier = "quick"
    props = None
    for i, a in enumerate(sys.argv):
        if a == "--tier":
            tier = sys.argv[i + 1]
            args = [x for x in args if x != tier]
        if a == "--props":
            props = sys.argv[i + 1].split(",")
            args = [x for x in args if x != sys.argv[i + 1]]
    ids = args or sorted(x for x in os.listdir(os.path.join(HERE, "seeded")) if os.path.isdir(os.path.join(HERE, "seeded", x)))
    # VF_SEEDED_RESULTS: a private results file for one of several concurrent runs (merged into RESULTS.json afterwards)
    rp = os.environ.get("VF_SEEDED_RESULTS") or os.path.join(HERE, "seeded", "RESULTS.json")
    results = json.load(open(rp)) if os.path.exists(rp) else {}
    for sid in ids:
        r = run_one(sid, tier, props)
        results.setdefault(sid, {}).update(r)
        print(sid, json.dumps(r)[:400], flush=True)
        with open(rp, "w") as f:
            json.dump(results, f, indent=1, sort_keys=True)


if __name__ == "__main__":
    main()
