"""Development tool: regenerate one generated case and run it in this process.

  python -m vf.tools.case C03 --seed 2 --idx 1234 [--tier quick] [--dump]

Prints the check's result for that case (and the payload with --dump); used to look at cases the runner reported
as inconclusive (step budget, watchdog), which carry their case index in the evidence file.
"""
import sys
import json
import importlib

from ..worker import case_rng, run_payload


def main():
    a = sys.argv[1:]
    pid = a[0]
    opt = {a[i]: a[i + 1] for i in range(1, len(a) - 1) if a[i].startswith("--") and not a[i + 1].startswith("--")}
    seed, idx, tier = int(opt.get("--seed", 0)), int(opt["--idx"]), opt.get("--tier", "quick")
    mod = importlib.import_module("vf.props." + pid.lower())
    if hasattr(mod, "worker_init"):
        mod.worker_init(tier, seed)
    payload = mod.make_payload(case_rng(seed, pid, idx), idx, tier)
    if "--dump" in a:
        print(json.dumps(payload, indent=1, default=str)[:20000])
    res = run_payload(mod, payload)
    print(json.dumps({k: v for k, v in res.items() if k not in ("digests", "tally", "sample")}, indent=1, default=str)[:6000])


if __name__ == "__main__":
    main()
