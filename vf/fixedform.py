"""Fixed-form renderer with ground truth.

render(P, rng, opts) -> (text, info) like layout.render.  Labels in columns
1-5, continuation mark in column 6, statement text in columns 7-wrap,
comment lines introduced by C, c, * or !.
"""
import random as _random

CONT_MARKS = "&+$*123456789xX.#"
COMMENT_STARTS = ["C", "c", "*", "!"]
COMMENT_BODIES = [" comment", "", " it's", ' say "hi', " x = 1", "$omp parallel", " end do", "     6 continue", "*****", " & cont"]

DEFAULTS = dict(wrap=72, p_comment=0.1, p_blank=0.04, p_between=0.15, p_inline=0.08, p_zero_col6=0.0,
                p_extra_break=0.15, comments=True, p_semi=0.0, label_align="random", indent_body=True,
                p_case=0.0, p_head_break=0.06, p_label_blank=0.05)


def render(P, rng, opts=None):
    o = dict(DEFAULTS)
    if opts:
        o.update(opts)
    base = rng.getrandbits(48)
    lines = []
    comments = []
    first, last = [], []
    n = len(P.stmts)

    def comment_line(r, kind, sidx):
        st = r.choice(COMMENT_STARTS)
        txt = st + r.choice(COMMENT_BODIES)
        if st == "!" and r.random() < 0.04:
            # '!' comments may start in any column but 6
            txt = " " * r.choice([1, 2, 3, 4, 6, 8, 12]) + txt
        lines.append(txt)
        comments.append((len(lines), txt.strip(), kind, sidx))

    i = 0
    while i < n:
        st = P.stmts[i]
        r = _random.Random(base * 1000003 + (st.oid if st.oid is not None else i))
        r2 = _random.Random(base * 7919 + 17 * (st.oid if st.oid is not None else i) + 5)   # separate stream: older layouts keep their shape
        if o["comments"]:
            while r.random() < o["p_comment"]:
                comment_line(r, "full", i)
        while r.random() < o["p_blank"]:
            lines.append("")
            comments.append((len(lines), "", "blank", None))
        group = [i]
        while (r.random() < o["p_semi"] and group[-1] + 1 < n and _joinable(P.stmts[group[-1]])
               and _joinable(P.stmts[group[-1] + 1]) and not P.stmts[group[-1] + 1].label):
            group.append(group[-1] + 1)
        label = st.label or ""
        body = _body(st, r, o)
        for k in group[1:]:
            body += "; " + _body(P.stmts[k], r, o, with_label=True)
        if o["indent_body"]:
            body = " " * min(st.depth, 6) + body
        width = o["wrap"] - 6
        if o["label_align"] == "left":
            lab = label.ljust(5)
        elif o["label_align"] == "right":
            lab = label.rjust(5)
        else:
            pad = 5 - len(label)
            left = r.randint(0, pad) if label else 0
            lab = (" " * left + label).ljust(5)
            if 2 <= len(label) <= 4 and r2.random() < o["p_label_blank"]:
                # blanks are insignificant in fixed form, also between the digits of a label
                k = r2.randint(1, len(label) - 1)
                lab = (" " * r2.randint(0, pad - 1) + label[:k] + " " + label[k:]).ljust(5)
        col6 = "0" if r.random() < o["p_zero_col6"] else " "
        start_line = len(lines) + 1
        # cut the body into chunks
        chunks = []
        rest = body
        head = None
        if r2.random() < o["p_head_break"]:
            # the first line ends right after (or inside) one of the statement's leading tokens
            from .lexer import lex_spans
            try:
                ends = [b for (_, _, a, b) in lex_spans(body)[:5] if 0 < b < len(body)]
            except Exception:
                ends = []
            if ends:
                head = r2.choice(ends) - (1 if r2.random() < 0.25 else 0)
                if head < 1 or head > width:
                    head = None
        while True:
            w = width
            if head is not None:
                w, head = head, None
            elif len(rest) > 8 and r.random() < o["p_extra_break"]:
                w = r.randint(3, min(width, len(rest) - 1))
            if len(rest) <= w or not rest.strip():
                chunks.append(rest)
                break
            lead = len(rest) - len(rest.lstrip())
            cut = max(w, lead + 1)
            while cut > lead + 1 and (rest[cut - 1] == " " or rest[cut - 1] == "&"):
                cut -= 1
            if rest[cut - 1] in " &":
                cut = max(w, lead + 1)
                while cut < len(rest) and rest[cut - 1] in " &":
                    cut += 1
            chunks.append(rest[:cut])
            rest = rest[cut:]
        for ci, ch in enumerate(chunks):
            if ci == 0:
                lines.append((lab + col6 + ch).rstrip() if not ch.strip() else lab + col6 + ch)
            else:
                if o["comments"] and r.random() < o["p_between"]:
                    comment_line(r, "incont", group[0])
                elif r.random() < o["p_between"] * 0.3:
                    lines.append("")
                    comments.append((len(lines), "", "blank", None))
                lines.append("     " + r.choice(CONT_MARKS) + ch)
        if o["comments"] and r.random() < o["p_inline"] and "'" not in chunks[-1] and '"' not in chunks[-1] \
                and len(lines[-1]) < o["wrap"] - 12:
            txt = "! inline " + r.choice(["c", "it's", "x;y"])
            lines[-1] = lines[-1] + " " + txt
            comments.append((len(lines), txt, "trailing", group[-1]))
        end_line = len(lines)
        for _ in group:
            first.append(start_line)
            last.append(end_line)
        i = group[-1] + 1
    text = "\n".join(lines) + "\n"
    return text, {"stmt_first": first, "stmt_last": last, "comments": comments, "n_lines": len(lines)}


def _body(st, r, o, with_label=False):
    from .layout import stmt_text

    oo = {"p_case": o.get("p_case", 0.0), "p_name_case": 0.0}
    text = stmt_text(st, r, oo)
    if st.label and not with_label:
        # label goes to columns 1-5
        text = text[len(st.label):].lstrip()
    return text


def _joinable(st):
    if "unit_open" in st.flags or "unit_close" in st.flags:
        return False
    if st.kind in ("contains", "type_contains"):
        return False
    return True
