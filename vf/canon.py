"""Tree canonicalisation and structural walkers (own traversal, independent
of fparser.two.utils.walk)."""
import re

from .fp import Base

_BLOCKNAME = re.compile(r"block:\d+")


def _kids(node):
    kids = getattr(node, "content", None)
    if kids is None:
        kids = getattr(node, "items", ())
    return kids


def iter_nodes(root):
    """Every Base node reachable through content/items, descending through
    tuples and lists, depth first in source order (pre-order)."""
    stack = [root]
    while stack:
        x = stack.pop()
        if isinstance(x, Base):
            yield x
            kids = _kids(x)
            stack.extend(reversed(list(kids)))
        elif isinstance(x, (tuple, list)):
            stack.extend(reversed(list(x)))


def iter_with_parent(root):
    """(node, structural parent) pairs, pre-order."""
    stack = [(root, None)]
    while stack:
        x, par = stack.pop()
        if isinstance(x, Base):
            yield x, par
            for k in reversed(list(_kids(x))):
                stack.append((k, x))
        elif isinstance(x, (tuple, list)):
            for k in reversed(list(x)):
                stack.append((k, par))


DROP_COMMENT = ("Comment", "Directive")
DROP_CPP_PREFIX = "Cpp_"


class ShapeOpts:
    def __init__(self, fold_names=False, drop=(), drop_cpp=False, prune_empty=False,
                 fold_all=False):
        self.fold_names = fold_names
        self.drop = tuple(drop)
        self.drop_cpp = drop_cpp
        self.prune_empty = prune_empty
        self.fold_all = fold_all


def shape(node, opts=None, _ren=None):
    """Nested tuple (class name, children...) with block:N renumbered in
    first-appearance order."""
    if opts is None:
        opts = ShapeOpts()
    if _ren is None:
        _ren = {}
    return _shape(node, opts, _ren)


_DROPPED = object()


def _str_leaf(s, opts, ren, is_name):
    def sub(m):
        k = m.group(0)
        if k not in ren:
            ren[k] = "block:#%d" % len(ren)
        return ren[k]

    s = _BLOCKNAME.sub(sub, s)
    if opts.fold_all or (is_name and opts.fold_names):
        # character literal text (quotes included) is never folded
        if not s.startswith("block:#") and s[:1] not in ("'", '"'):
            s = s.lower()
    return s


def _shape(x, opts, ren):
    if isinstance(x, Base):
        cname = type(x).__name__
        if cname in opts.drop:
            return _DROPPED
        if opts.drop_cpp and cname.startswith(DROP_CPP_PREFIX):
            return _DROPPED
        is_block = hasattr(x, "content") and getattr(x, "content", None) is not None
        kids = []
        for k in _kids(x):
            s = _shape_child(k, opts, ren, cname == "Name")
            if s is _DROPPED:
                continue
            kids.append(s)
        if is_block and opts.prune_empty and not kids:
            return _DROPPED
        if not kids and getattr(x, "items", None) is None and isinstance(getattr(x, "string", None), str):
            # StringBase leaves (Name, ...) keep their text in .string, not in items
            kids = [_str_leaf(x.string, opts, ren, cname == "Name" or cname.endswith("_Name"))]
        return (cname,) + tuple(kids)
    return _shape_child(x, opts, ren, False)


def _shape_child(k, opts, ren, is_name):
    if isinstance(k, Base):
        return _shape(k, opts, ren)
    if isinstance(k, (tuple, list)):
        out = []
        for y in k:
            s = _shape_child(y, opts, ren, is_name)
            if s is _DROPPED:
                continue
            out.append(s)
        return ("[]",) + tuple(out)
    if isinstance(k, str):
        return _str_leaf(k, opts, ren, is_name)
    return k


def norm_text(s):
    """str(tree) normal form: trailing blank lines stripped, block:N renumbered."""
    ren = {}

    def sub(m):
        k = m.group(0)
        if k not in ren:
            ren[k] = "block:#%d" % len(ren)
        return ren[k]

    return _BLOCKNAME.sub(sub, s.rstrip("\n").rstrip())


def first_diff(a, b, path=()):
    """Locate the first difference between two shapes, as a readable string."""
    if a == b:
        return None
    if isinstance(a, tuple) and isinstance(b, tuple):
        if a[:1] != b[:1]:
            return "%s: %r vs %r" % ("/".join(path), _brief(a), _brief(b))
        for i, (x, y) in enumerate(zip(a[1:], b[1:])):
            if x != y:
                return first_diff(x, y, path + ("%s[%d]" % (a[0], i),))
        return "%s/%s: child count %d vs %d (%r | %r)" % (
            "/".join(path), a[0], len(a) - 1, len(b) - 1,
            _brief(a[len(b):]) if len(a) > len(b) else "",
            _brief(b[len(a):]) if len(b) > len(a) else "",
        )
    return "%s: %r vs %r" % ("/".join(path), _brief(a), _brief(b))


def _brief(x, n=160):
    s = repr(x)
    return s if len(s) <= n else s[:n] + "..."


def count_nodes(root):
    return sum(1 for _ in iter_nodes(root))


# ------------------------------------------------------------ well-formedness
def wellformed(root, check_walk=True):
    """C10 structural invariants.  Returns a list of (key, detail)."""
    from .fp import walk

    problems = []
    seen = {}
    order = []
    if root.parent is not None:
        problems.append(("root-has-parent", type(root.parent).__name__))
    for node, par in iter_with_parent(root):
        if id(node) in seen:
            problems.append(("shared-node", "%s %r reached twice" % (type(node).__name__, str(node)[:60])))
            continue
        seen[id(node)] = node
        order.append(node)
        if par is not None and node.parent is not par:
            problems.append((
                "wrong-parent",
                "%s %r under %s has parent %s"
                % (type(node).__name__, str(node)[:50], type(par).__name__,
                   type(node.parent).__name__ if node.parent is not None else None),
            ))
        if len(problems) > 10:
            break
    if not problems:
        for node in order:
            try:
                r = node.get_root()
            except Exception as err:  # noqa
                problems.append(("get_root-raised", repr(err)))
                break
            if r is not root:
                problems.append(("get_root-wrong", "%s %r" % (type(node).__name__, str(node)[:50])))
                break
    if check_walk and not problems:
        walked = [n for n in walk(root) if isinstance(n, Base)]
        wid = [id(n) for n in walked]
        oid = [id(n) for n in order]
        if wid != oid:
            ws, os_ = set(wid), set(oid)
            if len(ws) != len(wid):
                problems.append(("walk-duplicates", "%d nodes yielded more than once" % (len(wid) - len(ws))))
            elif os_ - ws:
                miss = [seen[i] for i in oid if i not in ws]
                problems.append((
                    "walk-misses-nodes",
                    "%d of %d nodes not visited, first %s %r under %s"
                    % (len(miss), len(oid), type(miss[0]).__name__, str(miss[0])[:40],
                       type(miss[0].parent).__name__ if miss[0].parent is not None else None),
                ))
            elif ws - os_:
                problems.append(("walk-extra-nodes", "%d" % len(ws - os_)))
            else:
                problems.append(("walk-order", "walk() order differs from depth-first source order"))
    return problems, len(order)
